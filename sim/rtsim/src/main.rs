//! rtsim — real actix-rt (System, Arbiter, ArbiterHandle, Runtime) on real OS threads whose
//! freedom is taken away: a baton scheduler lets exactly one registered thread run at a time and a
//! seeded chooser decides, at every yield point, who runs next (C09, C10).

use std::{
    collections::HashMap,
    future::Future,
    panic::{catch_unwind, AssertUnwindSafe},
    pin::Pin,
    sync::{
        atomic::{AtomicBool, AtomicU64, Ordering},
        Arc, Condvar, Mutex,
    },
    task::{Context, Poll},
    thread::{self, ThreadId},
};

use actix_rt::{
    verif::{Hooks, Point},
    Arbiter, ArbiterHandle, System,
};
use serde::{Deserialize, Serialize};
use simcore::{ev, Chooser, Describe, Engine, Rng, RunCtx, Tier, Violation};

// ------------------------------------------------------------------------------------------------
// program

#[derive(Serialize, Deserialize, Clone, Debug, PartialEq)]
pub enum TaskKind {
    Fn,
    Fut,
    /// future that is Pending (self-waking) k times before it completes
    PendK(u8),
    Panic,
    /// task that spawns a marker through `Arbiter::current()`
    ViaCurrent,
    /// task that issues `System::current().stop_with_code(c)`
    StopSystem(i32),
    /// task that stops its own arbiter
    StopSelf,
    /// task that spawns a plain task on arbiter `n` (ordinal, modulo the number of arbiters)
    SpawnOn(usize),
    /// task that never completes and re-wakes itself forever (a busy arbiter)
    Busy,
    /// task that does not yield to its runtime until `run`/`run_with_code` has returned on the
    /// system thread (an arbiter stuck in a long synchronous task while the system is stopped)
    BlockUntilRun,
    /// always runnable (re-wakes itself at every poll, no scheduling point) until `run()` has
    /// returned: load on a runtime's run queue
    Spin,
}

#[derive(Serialize, Deserialize, Clone, Debug, PartialEq)]
pub enum Op {
    NewArbiter,
    /// target arbiter ordinal (usize::MAX = the system arbiter), kind, through a cloned handle?
    Spawn(usize, TaskKind, bool),
    StopArbiter(usize),
    JoinArbiter(usize),
    DropArbiter(usize),
    SystemStop(i32),
    BlockOn(u8, i32),
    /// a burst of n plain tasks sent back to back to one arbiter
    Burst(usize, u8),
    /// another System is created and dropped on a thread of its own while this one lives
    OtherSystem,
    /// n always-runnable tasks on the system arbiter (more than one run-queue pass of the runtime)
    SpinBurst(u8),
    /// `System::current().arbiter().stop()`: the system arbiter's own loop is told to stop
    StopSysArbiter,
    /// (second foreign thread only) join an arbiter that nobody has stopped: returns when the
    /// system stop, issued by somebody else, has ended its loop
    JoinRunning(usize),
    /// (system thread) drive the system with `block_on` until every arbiter that was registered
    /// when the controller took an Exit has ended its loop
    BlockOnUntilStopped,
    Nop,
}

#[derive(Serialize, Deserialize, Clone, Debug)]
pub struct Config {
    main_ops: Vec<Op>,
    foreign: Vec<Vec<Op>>,
    max_actions: usize,
    final_code: i32,
    /// use `SystemRunner::run()` (Ok iff the code is 0) instead of `run_with_code()`
    #[serde(default)]
    use_run: bool,
    /// the system thread has hosted (and dropped) another System before the one under test
    #[serde(default)]
    prior_system: bool,
}

#[derive(Serialize, Deserialize, Clone, Debug, PartialEq)]
pub enum Action {
    Run(usize),
}

// ------------------------------------------------------------------------------------------------
// baton scheduler

#[derive(Clone, Copy, PartialEq, Debug)]
enum SlotState {
    Starting,
    Runnable,
    BlockedJoin(usize),
    Exited,
}

struct TaskRec {
    arb: usize, // arbiter ordinal, usize::MAX = system arbiter
    seq: u64,
    sent_ok: bool,
    after_explicit_stop: bool,
    kind: TaskKind,
    starts: u32,
    first_poll_order: u64,
    thread: Option<ThreadId>,
    sys_id: Option<usize>,
    has_current: bool,
}

#[derive(Clone, Copy, PartialEq, Debug)]
enum SysCmd {
    Reg(usize),
    Dereg(usize),
    Exit,
}

struct ArbRec {
    arb_id: usize,
    arbiter: Option<Arbiter>,
    handle: ArbiterHandle,
    slot: usize,
    new_returned_seq: u64,
    explicit_stop_seq: Option<u64>,
    joined: bool,
    dropped: bool,
    thread: Option<ThreadId>,
}

struct State {
    slots: Vec<SlotState>,
    arrived: Vec<bool>,
    baton: usize,
    chooser: Option<Chooser<Action>>,
    events: Vec<String>,
    arb_slot: HashMap<usize, usize>,
    arb_thread: HashMap<usize, ThreadId>,
    ready: Vec<usize>,
    yields: u64,
    aborted: bool,
    violation: Option<Violation>,
    seq: u64,
    poll_order: u64,
    arbs: Vec<ArbRec>,
    tasks: Vec<TaskRec>,
    first_stop: Option<(u64, i32)>,
    second_stop: bool,
    sys_id: usize,
    main_thread: Option<ThreadId>,
    markers: Vec<(usize, Option<ThreadId>)>, // (task id of the ViaCurrent parent, thread the marker ran on)
    rr_phase: bool,
    /// slots of arbiter threads whose event loop has returned (BeforeDeregister reached)
    loop_ended: Vec<usize>,
    refused_before_join: bool,
    /// the system arbiter's own loop was told to stop (its tasks keep being polled by the system's
    /// LocalSet after that, so "a task runs" no longer implies "the arbiter accepts commands")
    sys_arb_stopped: bool,
    /// issue number of the first stop() sent to the system arbiter
    sys_arb_stop_seq: Option<u64>,
    run_returned: bool,
    blocked_until_run: bool,
    /// the system thread sits in `block_on`, waiting for the stop to take effect on the arbiters
    waiting_in_block_on: bool,
    stop_effect_under_block_on: bool,
    spin_bursts: u32,
    joined_running: bool,
    other_systems: u32,
    /// reference model of the system's command channel: what has been sent and not yet taken
    sysq: std::collections::VecDeque<SysCmd>,
    /// arbiter ids the reference controller has registered
    registered: Vec<usize>,
    /// arbiter ids that were registered when the controller took an Exit off the channel
    must_end: Vec<usize>,
    exits_processed: u32,
}

pub struct Sim {
    st: Mutex<State>,
    cv: Condvar,
    run_id: u64,
}

static RUN_COUNTER: AtomicU64 = AtomicU64::new(1);
const HARD_YIELD_CAP: u64 = 400_000;

thread_local! {
    static MY: std::cell::Cell<(u64, usize)> = const { std::cell::Cell::new((0, usize::MAX)) };
    static TICKER_INSTALLED: std::cell::Cell<bool> = const { std::cell::Cell::new(false) };
    /// (slot, arbiter id) announced by the most recent `Creating` point on this thread
    static LAST_CREATED: std::cell::Cell<(usize, usize)> = const { std::cell::Cell::new((usize::MAX, usize::MAX)) };
    /// gives the baton back when the thread is really over (locals of the thread body dropped)
    static EXIT_GUARD: std::cell::RefCell<Option<ExitGuard>> = const { std::cell::RefCell::new(None) };
}

struct ExitGuard(Arc<Sim>);

impl Drop for ExitGuard {
    fn drop(&mut self) {
        if let Some(s) = self.0.me() {
            self.0.log(format!("arbiter thread of slot {s} ends"));
        }
        self.0.exit_slot();
    }
}

impl Sim {
    fn me(&self) -> Option<usize> {
        let (run, slot) = MY.with(|m| m.get());
        if run == self.run_id && slot != usize::MAX {
            Some(slot)
        } else {
            None
        }
    }

    fn log(&self, s: String) {
        evpush(&mut self.st.lock().unwrap().events, s);
    }

    fn schedulable(st: &State, s: usize) -> bool {
        match st.slots[s] {
            SlotState::Runnable | SlotState::Starting => true,
            SlotState::BlockedJoin(t) => st.slots[t] == SlotState::Exited,
            SlotState::Exited => false,
        }
    }

    /// Decide who runs next. Called with the lock held by the thread that owns the baton.
    fn pick(&self, st: &mut State, me: usize, exclude_me: bool) -> Option<usize> {
        let cand: Vec<usize> = (0..st.slots.len()).filter(|s| Self::schedulable(st, *s) && !(exclude_me && *s == me)).collect();
        if cand.is_empty() {
            return None;
        }
        st.yields += 1;
        if st.yields > HARD_YIELD_CAP && !st.aborted {
            st.aborted = true;
            if st.violation.is_none() {
                st.violation = Some(Violation::new("hang", format!("no completion after {HARD_YIELD_CAP} scheduling decisions (round-robin phase included)")));
            }
            return Some(cand[0]);
        }
        let en: Vec<(Action, u32)> = cand.iter().map(|s| (Action::Run(*s), 1)).collect();
        let choice = if st.rr_phase { None } else { st.chooser.as_mut().and_then(|c| c.choose(&en)) };
        if std::env::var("RTSIM_DEBUG").is_ok() {
            eprintln!("pick by {me}: cand {cand:?} states {:?} -> {choice:?}", st.slots);
        }
        match choice {
            Some(Action::Run(s)) => Some(s),
            None => {
                // program of choices is over: fair round-robin so that starvation by the PRNG can
                // never be mistaken for a hang
                st.rr_phase = true;
                let next = cand.iter().find(|s| **s > me).or(cand.first()).copied();
                next
            }
        }
    }

    fn hand_over(&self, mut st: std::sync::MutexGuard<'_, State>, me: usize, next: usize) {
        st.baton = next;
        drop(st);
        self.cv.notify_all();
        let mut st = self.st.lock().unwrap();
        while st.baton != me && !st.aborted {
            st = self.cv.wait(st).unwrap();
        }
    }

    pub fn yield_now(&self) {
        let Some(me) = self.me() else { return };
        let mut st = self.st.lock().unwrap();
        if st.aborted {
            return;
        }
        if st.baton != me {
            // cannot happen on a correct harness: only the baton holder runs
            let holder = st.baton;
            st.violation.get_or_insert(Violation::new("harness-baton", format!("slot {me} ran without the baton (holder {holder})")));
            st.aborted = true;
            drop(st);
            self.cv.notify_all();
            return;
        }
        let next = self.pick(&mut st, me, false).unwrap_or(me);
        if next == me {
            return;
        }
        self.hand_over(st, me, next);
    }

    /// Register the calling thread under `slot` and wait for the baton.
    fn arrive(&self, slot: usize) {
        MY.with(|m| m.set((self.run_id, slot)));
        let mut st = self.st.lock().unwrap();
        st.arrived[slot] = true;
        st.slots[slot] = SlotState::Runnable;
        self.cv.notify_all();
        while st.baton != slot && !st.aborted {
            st = self.cv.wait(st).unwrap();
        }
    }

    fn new_slot(&self, st: &mut State) -> usize {
        st.slots.push(SlotState::Starting);
        st.arrived.push(false);
        st.slots.len() - 1
    }

    fn exit_slot(&self) {
        let Some(me) = self.me() else { return };
        let mut st = self.st.lock().unwrap();
        st.slots[me] = SlotState::Exited;
        MY.with(|m| m.set((0, usize::MAX)));
        if st.aborted {
            drop(st);
            self.cv.notify_all();
            return;
        }
        match self.pick(&mut st, me, true) {
            Some(next) => {
                st.baton = next;
            }
            None => {
                st.aborted = true;
                st.violation.get_or_insert(Violation::new("harness-deadlock", "a thread exited and nothing else is schedulable"));
            }
        }
        drop(st);
        self.cv.notify_all();
    }

    /// Run a really-blocking join without the baton; the slot becomes schedulable again only
    /// once the joined thread has reached its end, which is a deterministic condition.
    fn blocking_join<T: Send + 'static>(&self, target: usize, f: impl FnOnce() -> T + Send + 'static) -> (Option<T>, bool) {
        let Some(me) = self.me() else {
            return (Some(f()), false);
        };
        {
            let mut st = self.st.lock().unwrap();
            if !st.aborted {
                st.slots[me] = SlotState::BlockedJoin(target);
                match self.pick(&mut st, me, false) {
                    Some(next) => st.baton = next,
                    None => {
                        st.aborted = true;
                        st.violation.get_or_insert(Violation::new(
                            "arbiter-not-stopped",
                            format!("join() on a thread (slot {target}) that never ends: nothing else can run"),
                        ));
                    }
                }
            }
            drop(st);
            self.cv.notify_all();
        }
        let (tx, rx) = std::sync::mpsc::channel();
        let _ = thread::Builder::new().name("rtsim-join-helper".into()).spawn(move || {
            let _ = tx.send(f());
        });
        let r = loop {
            match rx.recv_timeout(std::time::Duration::from_millis(2)) {
                Ok(r) => break Some(r),
                Err(std::sync::mpsc::RecvTimeoutError::Timeout) => {
                    if self.st.lock().unwrap().aborted {
                        // one more chance: the join may be about to return
                        match rx.recv_timeout(std::time::Duration::from_millis(50)) {
                            Ok(r) => break Some(r),
                            Err(_) => break None,
                        }
                    }
                }
                Err(_) => break None,
            }
        };
        let mut st = self.st.lock().unwrap();
        let early = r.is_some() && st.slots[target] != SlotState::Exited && !st.aborted;
        st.slots[me] = SlotState::Runnable;
        self.cv.notify_all();
        while st.baton != me && !st.aborted {
            st = self.cv.wait(st).unwrap();
        }
        (r, early)
    }

    fn aborted(&self) -> bool {
        self.st.lock().unwrap().aborted
    }
}

struct SimHooks(Arc<Sim>);

impl Hooks for SimHooks {
    fn point(&self, p: Point) {
        let sim = &self.0;
        match p {
            Point::Creating(id) => {
                if sim.me().is_none() {
                    return;
                }
                let mut st = sim.st.lock().unwrap();
                let slot = sim.new_slot(&mut st);
                st.arb_slot.insert(id, slot);
                LAST_CREATED.with(|l| l.set((slot, id)));
                evpush(&mut st.events, format!("creating arbiter thread (slot {slot})"));
            }
            Point::ThreadStart(id) => {
                let slot = {
                    let st = sim.st.lock().unwrap();
                    st.arb_slot.get(&id).copied()
                };
                let Some(slot) = slot else { return };
                sim.arrive(slot);
                let mut st = sim.st.lock().unwrap();
                st.arb_thread.insert(id, thread::current().id());
                evpush(&mut st.events, format!("arbiter thread of slot {slot} runs"));
            }
            Point::ReadySent(id) => {
                if sim.me().is_none() {
                    return;
                }
                {
                    let mut st = sim.st.lock().unwrap();
                    st.ready.push(id);
                    // RegisterArbiter was sent between BeforeRegister and here, with the baton held
                    st.sysq.push_back(SysCmd::Reg(id));
                }
                sim.yield_now();
            }
            Point::WaitReady(id) => {
                if sim.me().is_none() {
                    return;
                }
                loop {
                    {
                        let st = sim.st.lock().unwrap();
                        if st.ready.contains(&id) || st.aborted {
                            break;
                        }
                    }
                    sim.yield_now();
                }
            }
            Point::BeforeDeregister(_) => {
                if let Some(s) = sim.me() {
                    let mut st = sim.st.lock().unwrap();
                    st.loop_ended.push(s);
                    evpush(&mut st.events, format!("event loop of slot {s} has returned"));
                }
                sim.yield_now()
            }
            Point::ControllerItem => {
                if sim.me().is_none() {
                    return;
                }
                sim.yield_now();
                // the controller polls its channel right after this hook returns, baton held: the
                // reference model takes the same command
                let mut st = sim.st.lock().unwrap();
                match st.sysq.pop_front() {
                    Some(SysCmd::Reg(id)) => st.registered.push(id),
                    Some(SysCmd::Dereg(id)) => st.registered.retain(|r| *r != id),
                    Some(SysCmd::Exit) => {
                        st.exits_processed += 1;
                        let reg = st.registered.clone();
                        for id in reg {
                            if !st.must_end.contains(&id) {
                                st.must_end.push(id);
                            }
                        }
                        let n = st.exits_processed;
                        evpush(&mut st.events, format!("controller takes Exit #{n}"));
                    }
                    None => {}
                }
            }
            Point::BeforeRegister(_) | Point::RunnerItem => sim.yield_now(),
            Point::ThreadEnd(id) => {
                if sim.me().is_some() {
                    // DeregisterArbiter was sent between BeforeDeregister and here, baton held
                    sim.st.lock().unwrap().sysq.push_back(SysCmd::Dereg(id));
                }
                // the thread keeps the baton while the locals of its body (runtime, parked tasks)
                // are dropped; the slot exits from a thread-local destructor, after all of that
                if sim.me().is_some() {
                    EXIT_GUARD.with(|g| *g.borrow_mut() = Some(ExitGuard(sim.clone())));
                }
            }
        }
    }
}

/// Perpetual task: hands the baton back at every runtime tick, so a runtime thread never parks in
/// the kernel while it is schedulable.
struct Ticker(Arc<Sim>);

impl Future for Ticker {
    type Output = ();
    fn poll(self: Pin<&mut Self>, cx: &mut Context<'_>) -> Poll<()> {
        if self.0.aborted() || self.0.me().is_none() {
            return Poll::Ready(());
        }
        self.0.yield_now();
        cx.waker().wake_by_ref();
        Poll::Pending
    }
}

fn sim_runtime(sim: Arc<Sim>) -> tokio::runtime::Runtime {
    TICKER_INSTALLED.with(|t| t.set(false));
    tokio::runtime::Builder::new_current_thread()
        .enable_all()
        .on_thread_park(move || {
            TICKER_INSTALLED.with(|t| {
                if !t.get() && sim.me().is_some() && !sim.aborted() {
                    t.set(true);
                    tokio::spawn(Ticker(sim.clone()));
                }
            })
        })
        .build()
        .expect("runtime")
}

// ------------------------------------------------------------------------------------------------
// harness tasks

struct TaskFut {
    sim: Arc<Sim>,
    id: usize,
    polls: u8,
    started: bool,
}

impl Future for TaskFut {
    type Output = ();
    fn poll(mut self: Pin<&mut Self>, cx: &mut Context<'_>) -> Poll<()> {
        let sim = self.sim.clone();
        let id = self.id;
        if !self.started {
            self.started = true;
            let kind = {
                let mut st = sim.st.lock().unwrap();
                st.poll_order += 1;
                let po = st.poll_order;
                let t = &mut st.tasks[id];
                t.starts += 1;
                t.first_poll_order = po;
                t.thread = Some(thread::current().id());
                t.sys_id = System::try_current().map(|s| s.id());
                t.has_current = Arbiter::try_current().is_some();
                let (arb, seq) = (t.arb, t.seq);
                let kind = t.kind.clone();
                evpush(&mut st.events, format!("task {id} (arb {}, seq {seq}) starts", if arb == usize::MAX { "sys".to_string() } else { arb.to_string() }));
                kind
            };
            match kind {
                TaskKind::Panic => panic!("verif: injected task panic"),
                TaskKind::ViaCurrent => {
                    let sim2 = sim.clone();
                    let ok = Arbiter::try_current().map(|h| {
                        h.spawn_fn(move || {
                            let mut st = sim2.st.lock().unwrap();
                            st.markers.push((id, Some(thread::current().id())));
                        })
                    });
                    if ok != Some(true) {
                        let mut st = sim.st.lock().unwrap();
                        st.markers.push((id, None));
                        // a task of an `Arbiter::new` arbiter is polled only from inside its
                        // `block_on(ArbiterRunner)`, so the receiver is alive; the system arbiter's
                        // tasks outlive its runner once a stop (of the system or of that arbiter)
                        // has been issued
                        let on_sys = st.tasks[id].arb == usize::MAX;
                        let alive = !on_sys || (st.first_stop.is_none() && !st.sys_arb_stopped);
                        if alive { st.violation.get_or_insert(Violation::new(
                            "current-arbiter-dead",
                            format!("inside a running task, Arbiter::current() was {} although the arbiter running the task is alive", if ok.is_none() { "absent" } else { "a handle whose spawn_fn reports false" }),
                        )); }
                    }
                }
                TaskKind::StopSystem(code) => do_system_stop(&sim, code),
                TaskKind::StopSelf => {
                    if let Some(h) = Arbiter::try_current() {
                        // an arbiter stopping itself: recorded like any explicit stop
                        let mut st = sim.st.lock().unwrap();
                        let me = thread::current().id();
                        let seq = {
                            st.seq += 1;
                            st.seq
                        };
                        if let Some(a) = st.arbs.iter_mut().find(|a| a.thread == Some(me)) {
                            if h.stop() && a.explicit_stop_seq.is_none() {
                                a.explicit_stop_seq = Some(seq);
                            }
                        } else {
                            st.sys_arb_stopped = true;
                            if st.main_thread == Some(me) && st.sys_arb_stop_seq.is_none() {
                                // sent with the harness lock held: issue order == send order
                                st.sys_arb_stop_seq = Some(seq);
                                h.stop();
                            } else {
                                drop(st);
                                h.stop();
                            }
                        }
                    }
                }
                TaskKind::BlockUntilRun => {
                    // only on `Arbiter::new` arbiters (on the system arbiter it would block the
                    // very thread that is to return from `run`)
                    if sim.st.lock().unwrap().tasks[id].arb != usize::MAX {
                        sim.st.lock().unwrap().blocked_until_run = true;
                        loop {
                            {
                                let st = sim.st.lock().unwrap();
                                // a thread blocked in a join on this arbiter would wait for ever,
                                // and with it possibly the stop this task is waiting for
                                let someone_joins = st.slots.iter().any(|s| matches!(s, SlotState::BlockedJoin(_)));
                                if st.run_returned || st.aborted || someone_joins || st.waiting_in_block_on {
                                    break;
                                }
                            }
                            sim.yield_now();
                        }
                    }
                }
                TaskKind::SpawnOn(n) => {
                    let target = {
                        let st = sim.st.lock().unwrap();
                        if st.arbs.is_empty() {
                            None
                        } else {
                            Some(n % st.arbs.len())
                        }
                    };
                    if let Some(t) = target {
                        do_spawn(&sim, t, TaskKind::Fn, true);
                    }
                }
                _ => {}
            }
            sim.yield_now();
        }
        let kind = self.sim.st.lock().unwrap().tasks[id].kind.clone();
        match kind {
            TaskKind::PendK(k) if self.polls < k => {
                self.polls += 1;
                cx.waker().wake_by_ref();
                Poll::Pending
            }
            TaskKind::Busy => {
                if sim.aborted() {
                    return Poll::Ready(());
                }
                sim.yield_now();
                cx.waker().wake_by_ref();
                Poll::Pending
            }
            TaskKind::Spin => {
                let over = {
                    let st = sim.st.lock().unwrap();
                    st.run_returned || st.aborted
                };
                if over {
                    return Poll::Ready(());
                }
                cx.waker().wake_by_ref();
                Poll::Pending
            }
            _ => Poll::Ready(()),
        }
    }
}

fn do_system_stop(sim: &Arc<Sim>, code: i32) {
    let Some(sys) = System::try_current() else { return };
    let mut st = sim.st.lock().unwrap();
    st.seq += 1;
    let seq = st.seq;
    if st.first_stop.is_none() {
        st.first_stop = Some((seq, code));
    } else {
        st.second_stop = true;
    }
    evpush(&mut st.events, format!("stop_with_code({code})"));
    st.sysq.push_back(SysCmd::Exit);
    // the send happens while the harness lock is held: issue order == send order
    sys.stop_with_code(code);
}

fn do_spawn(sim: &Arc<Sim>, arb: usize, kind: TaskKind, via_handle: bool) {
    let mut st = sim.st.lock().unwrap();
    st.seq += 1;
    let seq = st.seq;
    let id = st.tasks.len();
    let after_stop = if arb == usize::MAX { st.sys_arb_stop_seq.is_some() } else { st.arbs[arb].explicit_stop_seq.is_some() };
    st.tasks.push(TaskRec {
        arb,
        seq,
        sent_ok: false,
        after_explicit_stop: after_stop,
        kind: kind.clone(),
        starts: 0,
        first_poll_order: 0,
        thread: None,
        sys_id: None,
        has_current: false,
    });
    let fut = TaskFut { sim: sim.clone(), id, polls: 0, started: false };
    let is_fn = kind == TaskKind::Fn;
    let ok = if arb == usize::MAX {
        match System::try_current() {
            Some(sys) => sys.arbiter().spawn(fut),
            None => false,
        }
    } else {
        let a = &st.arbs[arb];
        match (&a.arbiter, via_handle, is_fn) {
            (Some(arbiter), false, true) => {
                // spawn_fn face: the closure performs the first-poll bookkeeping by polling once
                let sim2 = sim.clone();
                arbiter.spawn_fn(move || {
                    let mut f = TaskFut { sim: sim2, id, polls: 0, started: false };
                    let w = std::task::Waker::noop();
                    let mut cx = Context::from_waker(&w);
                    let _ = Pin::new(&mut f).poll(&mut cx);
                })
            }
            (Some(arbiter), false, false) => arbiter.spawn(fut),
            _ => a.handle.spawn(fut),
        }
    };
    st.tasks[id].sent_ok = ok;
    let joined = arb != usize::MAX && st.arbs[arb].joined;
    let ended = arb != usize::MAX && st.loop_ended.contains(&st.arbs[arb].slot);
    evpush(&mut st.events, format!("spawn task {id} on arb {} -> {ok}", if arb == usize::MAX { "sys".to_string() } else { arb.to_string() }));
    if !ok && ended && !joined {
        st.refused_before_join = true;
    }
    if ok && ended && !joined {
        st.violation.get_or_insert(Violation::new(
            "spawn-true-when-gone",
            format!("spawn on arbiter {arb} returned true although its event loop had already returned"),
        ));
    }
    if ok && joined {
        st.violation.get_or_insert(Violation::new(
            "spawn-true-when-gone",
            format!("spawn on arbiter {arb} returned true although join() on it had already returned"),
        ));
    }
}

fn exec_op(sim: &Arc<Sim>, op: &Op, runner: Option<&actix_rt::SystemRunner>) {
    let narbs = sim.st.lock().unwrap().arbs.len();
    let pick = |n: usize| if n == usize::MAX { Some(usize::MAX) } else if narbs == 0 { None } else { Some(n % narbs) };
    match op {
        Op::Nop => {}
        Op::NewArbiter => {
            if narbs >= 3 || System::try_current().is_none() {
                return;
            }
            let s2 = sim.clone();
            let arb = Arbiter::with_tokio_rt(move || sim_runtime(s2));
            let handle = arb.handle();
            let mut st = sim.st.lock().unwrap();
            st.seq += 1;
            let seq = st.seq;
            // the slot and thread announced by this very creation (creations may overlap)
            let (slot, arb_id) = LAST_CREATED.with(|l| l.get());
            let thread = st.arb_thread.get(&arb_id).copied();
            st.arbs.push(ArbRec { arb_id, arbiter: Some(arb), handle, slot, new_returned_seq: seq, explicit_stop_seq: None, joined: false, dropped: false, thread });
            let n = st.arbs.len() - 1;
            evpush(&mut st.events, format!("Arbiter::new returned: arb {n} (slot {slot})"));
        }
        Op::Spawn(n, kind, via) => {
            if let Some(a) = pick(*n) {
                do_spawn(sim, a, kind.clone(), *via);
            }
        }
        Op::StopArbiter(n) => {
            if let Some(a) = pick(*n).filter(|a| *a != usize::MAX) {
                let mut st = sim.st.lock().unwrap();
                st.seq += 1;
                let seq = st.seq;
                let ok = match &st.arbs[a].arbiter {
                    Some(arb) => arb.stop(),
                    None => st.arbs[a].handle.stop(),
                };
                if ok && st.arbs[a].explicit_stop_seq.is_none() {
                    st.arbs[a].explicit_stop_seq = Some(seq);
                }
                let joined = st.arbs[a].joined || st.loop_ended.contains(&st.arbs[a].slot);
                evpush(&mut st.events, format!("stop arb {a} -> {ok}"));
                if ok && joined {
                    st.violation.get_or_insert(Violation::new("spawn-true-when-gone", format!("stop() on arbiter {a} returned true after its event loop had returned")));
                }
            }
        }
        Op::DropArbiter(n) => {
            if let Some(a) = pick(*n).filter(|a| *a != usize::MAX) {
                let arb = {
                    let mut st = sim.st.lock().unwrap();
                    st.arbs[a].dropped = true;
                    evpush(&mut st.events, format!("drop Arbiter struct {a}"));
                    st.arbs[a].arbiter.take()
                };
                drop(arb);
            }
        }
        Op::JoinArbiter(n) => {
            if let Some(a) = pick(*n).filter(|a| *a != usize::MAX) {
                join_arb(sim, a, false, false);
            }
        }
        Op::JoinRunning(n) => {
            // only where somebody else is certain to issue the stop: not on the system thread
            // (it would never get to run()) and not on foreign thread 0 (it issues the final stop)
            // ... and only while no stop has been issued: the arbiter then exists before the first
            // stop, which is therefore certain to reach it
            let allowed = thread::current().name().map_or(false, |n| n == "rtsim-foreign-1") && sim.st.lock().unwrap().first_stop.is_none();
            if let (true, Some(a)) = (allowed, pick(*n).filter(|a| *a != usize::MAX)) {
                sim.st.lock().unwrap().joined_running = true;
                join_arb(sim, a, true, false);
            }
        }
        Op::SystemStop(code) => do_system_stop(sim, *code),
        Op::Burst(n, count) => {
            if let Some(a) = pick(*n) {
                for _ in 0..*count {
                    do_spawn(sim, a, TaskKind::Fut, true);
                }
            }
        }
        Op::SpinBurst(n) => {
            for _ in 0..*n {
                do_spawn(sim, usize::MAX, TaskKind::Spin, true);
            }
            sim.st.lock().unwrap().spin_bursts += 1;
        }
        Op::StopSysArbiter => {
            if let Some(sys) = System::try_current() {
                let mut st = sim.st.lock().unwrap();
                st.seq += 1;
                let seq = st.seq;
                st.sys_arb_stopped = true;
                // sent with the harness lock held: issue order == send order
                let ok = sys.arbiter().stop();
                if ok && st.sys_arb_stop_seq.is_none() {
                    st.sys_arb_stop_seq = Some(seq);
                }
                evpush(&mut st.events, format!("stop the system arbiter -> {ok}"));
            }
        }
        Op::OtherSystem => {
            // joined at once: the helper thread is not under the baton, and nothing it does
            // depends on timing (hook points are inert on unregistered threads)
            let h = thread::Builder::new().name("rtsim-other-system".into()).spawn(|| {
                let other = System::new();
                let v = other.block_on(async { 7 });
                drop(other);
                v
            });
            if let Ok(h) = h {
                let _ = h.join();
            }
            let mut st = sim.st.lock().unwrap();
            st.other_systems += 1;
            evpush(&mut st.events, "another System lived and died on its own thread".to_string());
        }
        Op::BlockOnUntilStopped => {
            if let Some(r) = runner {
                let s2 = sim.clone();
                let mut idle_polls = 0u32;
                sim.st.lock().unwrap().waiting_in_block_on = true;
                let outcome = r.block_on(std::future::poll_fn(move |cx| {
                    let done = {
                        let st = s2.st.lock().unwrap();
                        if st.aborted {
                            Some("aborted")
                        } else if st.exits_processed >= 1 {
                            // every arbiter the controller told to stop has left its loop
                            let all = st.must_end.iter().filter(|id| **id != usize::MAX).all(|id| st.arb_slot.get(id).map_or(true, |slot| st.loop_ended.contains(slot)));
                            if all { Some("arbiters ended") } else { None }
                        } else {
                            None
                        }
                    };
                    if let Some(d) = done {
                        return Poll::Ready(d);
                    }
                    if s2.st.lock().unwrap().exits_processed == 0 {
                        idle_polls += 1;
                        if idle_polls > 40 {
                            return Poll::Ready("no stop yet");
                        }
                    }
                    cx.waker().wake_by_ref();
                    Poll::Pending
                }));
                let mut st = sim.st.lock().unwrap();
                st.waiting_in_block_on = false;
                if outcome == "arbiters ended" && st.must_end.iter().any(|id| *id != usize::MAX) {
                    st.stop_effect_under_block_on = true;
                }
                evpush(&mut st.events, format!("block_on until stopped -> {outcome}"));
            }
        }
        Op::BlockOn(k, val) => {
            if let Some(r) = runner {
                let k = *k;
                let val = *val;
                let mut polls = 0u8;
                let out = r.block_on(std::future::poll_fn(move |cx| {
                    if polls < k {
                        polls += 1;
                        cx.waker().wake_by_ref();
                        Poll::Pending
                    } else {
                        Poll::Ready(val * 3 + 1)
                    }
                }));
                sim.log(format!("block_on -> {out}"));
                if out != val * 3 + 1 {
                    sim.st.lock().unwrap().violation.get_or_insert(Violation::new("block_on-output", format!("block_on returned {out}, the future produced {}", val * 3 + 1)));
                }
            }
        }
    }
}

/// Join an arbiter whose loop is known to end: it was stopped explicitly, or (`after_run`) the
/// system has processed its stop; with `force_stop` it is stopped here first.
fn join_arb(sim: &Arc<Sim>, a: usize, after_run: bool, force_stop: bool) {
    let (arb, slot) = {
        let mut st = sim.st.lock().unwrap();
        let stopped = st.arbs[a].explicit_stop_seq.is_some();
        if st.arbs[a].joined || st.arbs[a].arbiter.is_none() || !(stopped || after_run) {
            return;
        }
        (st.arbs[a].arbiter.take().unwrap(), st.arbs[a].slot)
    };
    if force_stop {
        arb.stop();
    }
    let (res, early) = sim.blocking_join(slot, move || arb.join());
    let mut st = sim.st.lock().unwrap();
    st.arbs[a].joined = true;
    let Some(res) = res else {
        // the run was aborted while this join was outstanding: the arbiter's loop never ended
        if st.violation.as_ref().map_or(true, |v| v.class == "hang") {
            st.violation = Some(Violation::new("arbiter-not-stopped", format!("join() on arbiter {a} never returned: its event loop did not end")));
        }
        return;
    };
    evpush(&mut st.events, format!("join arb {a} -> ok={}", res.is_ok()));
    if early {
        st.violation.get_or_insert(Violation::new("join-early", format!("join() on arbiter {a} returned before its thread had ended")));
    }
    if res.is_err() {
        st.violation.get_or_insert(Violation::new("arbiter-thread-panicked", format!("the thread of arbiter {a} panicked")));
    }
}

// ------------------------------------------------------------------------------------------------

fn sim_thread(sim: Arc<Sim>, cfg: Config) {
    // slot 0 = the system thread
    sim.arrive(0);
    {
        let mut st = sim.st.lock().unwrap();
        st.main_thread = Some(thread::current().id());
    }
    if cfg.prior_system {
        // history: this thread has already hosted a System, whose thread-locals are still around
        let old = System::new();
        let v = old.block_on(async { 41 + 1 });
        let _ = Arbiter::try_current().map(|h| h.spawn_fn(|| {}));
        drop(old);
        sim.log(format!("prior system on this thread: block_on -> {v}"));
    }
    let s2 = sim.clone();
    let runner = System::with_tokio_rt(move || sim_runtime(s2));
    let sys = System::current();
    {
        let mut st = sim.st.lock().unwrap();
        st.sys_id = sys.id();
        // the new system has sent the registration of its own arbiter to its controller
        st.sysq.clear();
        st.registered.clear();
        st.sysq.push_back(SysCmd::Reg(usize::MAX));
    }

    // foreign threads
    let mut foreign_handles = Vec::new();
    for (fi, prog) in cfg.foreign.iter().enumerate() {
        let slot = {
            let mut st = sim.st.lock().unwrap();
            sim.new_slot(&mut st)
        };
        let s3 = sim.clone();
        let prog = prog.clone();
        let sys = sys.clone();
        let final_code = cfg.final_code;
        let h = thread::Builder::new()
            .name(format!("rtsim-foreign-{fi}"))
            .spawn(move || {
                s3.arrive(slot);
                System::set_current(sys);
                for op in &prog {
                    if s3.aborted() {
                        break;
                    }
                    let _ = catch_unwind(AssertUnwindSafe(|| exec_op(&s3, op, None)));
                    s3.yield_now();
                }
                if fi == 0 {
                    // guarantee: the system is stopped eventually
                    let need = s3.st.lock().unwrap().first_stop.is_none();
                    if need {
                        do_system_stop(&s3, final_code);
                    }
                }
                s3.exit_slot();
            })
            .expect("spawn foreign");
        foreign_handles.push((slot, h));
    }

    for op in &cfg.main_ops {
        if sim.aborted() {
            break;
        }
        exec_op(&sim, op, Some(&runner));
        sim.yield_now();
    }

    let res: std::io::Result<i32> = if cfg.use_run {
        // `run` turns a non-zero code into an error; mapped back to a code for the common check
        match runner.run() {
            Ok(()) => Ok(0),
            Err(e) => {
                let first = sim.st.lock().unwrap().first_stop.map(|s| s.1);
                sim.st.lock().unwrap().events.push("run() returned an error".to_string());
                match first {
                    Some(c) if c != 0 => Ok(c),
                    _ => Err(e),
                }
            }
        }
    } else {
        runner.run_with_code()
    };
    {
        let mut st = sim.st.lock().unwrap();
        st.run_returned = true;
        evpush(&mut st.events, format!("run_with_code -> {res:?}"));
        let first = st.first_stop;
        match (&res, first) {
            (Ok(c), Some((_, want))) if *c == want => {}
            (r, want) => {
                let v = Violation::new("exit-code-wrong", format!("run_with_code returned {r:?}; the first stop_with_code carried {:?}", want.map(|w| w.1)));
                st.violation.get_or_insert(v);
            }
        }
    }

    // foreign threads first: once they have ended no further arbiter can appear
    for (slot, h) in foreign_handles {
        if sim.aborted() {
            break;
        }
        let _ = sim.blocking_join(slot, move || h.join());
    }

    // every arbiter whose Arbiter::new had returned before the first stop was issued has been
    // told to stop by the system: its thread ends and join() returns
    let stop_seq = sim.st.lock().unwrap().first_stop.map(|s| s.0).unwrap_or(u64::MAX);
    let n = sim.st.lock().unwrap().arbs.len();
    for a in 0..n {
        let (before, has_struct, slot, joined) = {
            let st = sim.st.lock().unwrap();
            // ... and so has every arbiter that was registered when the controller took any Exit
            // (also a second one) off its channel
            let told = st.must_end.contains(&st.arbs[a].arb_id);
            (st.arbs[a].new_returned_seq < stop_seq || told, st.arbs[a].arbiter.is_some(), st.arbs[a].slot, st.arbs[a].joined)
        };
        if joined {
            continue;
        }
        if has_struct {
            join_arb(&sim, a, true, !before);
        } else {
            if !before {
                let h = sim.st.lock().unwrap().arbs[a].handle.clone();
                h.stop();
            }
            // the struct was dropped: wait for the thread's end through the scheduler
            loop {
                {
                    let st = sim.st.lock().unwrap();
                    if st.slots[slot] == SlotState::Exited || st.aborted {
                        break;
                    }
                }
                sim.yield_now();
            }
        }
        if sim.aborted() {
            let mut st = sim.st.lock().unwrap();
            if before && matches!(st.violation.as_ref().map(|v| v.class.as_str()), Some("hang") | None) {
                st.violation = Some(Violation::new(
                    "arbiter-not-stopped",
                    format!("arbiter {a} was created before the first System::stop was issued (or was registered when the controller processed a later stop) but its event loop never ended"),
                ));
            }
            break;
        }
    }
    // spawn on a joined arbiter reports false
    let n = sim.st.lock().unwrap().arbs.len();
    for a in 0..n {
        if sim.aborted() {
            break;
        }
        let joined = sim.st.lock().unwrap().arbs[a].joined;
        if joined {
            do_spawn(&sim, a, TaskKind::Fn, true);
        }
    }
    // slot 0 ends the run; nothing else may still be running (it would free-run after this point)
    let mut st = sim.st.lock().unwrap();
    if !st.aborted {
        if let Some(s) = (1..st.slots.len()).find(|s| st.slots[*s] != SlotState::Exited) {
            st.violation.get_or_insert(Violation::new("harness-leftover-thread", format!("slot {s} is still alive at the end of the run")));
        }
    }
    st.slots[0] = SlotState::Exited;
    st.aborted = true;
    drop(st);
    sim.cv.notify_all();
}

fn final_oracles(st: &mut State, prop: &str) -> Option<Violation> {
    if let Some(v) = st.violation.take() {
        if v.class == "hang" && st.waiting_in_block_on && st.exits_processed >= 1 {
            return Some(Violation::new(
                "arbiter-not-stopped",
                format!(
                    "the controller took {} Exit command(s) off its channel while the system was driven by block_on, but the arbiters registered at that moment had not ended their loops after {HARD_YIELD_CAP} scheduling decisions",
                    st.exits_processed
                ),
            ));
        }
        if v.class == "hang" && st.exits_processed >= 1 && !st.run_returned {
            return Some(Violation::new(
                "run-never-returned",
                format!(
                    "the system controller took {} Exit command(s) off its channel but run/run_with_code had not returned after {HARD_YIELD_CAP} scheduling decisions{}",
                    st.exits_processed,
                    if st.blocked_until_run { " (an arbiter is busy in a task that ends once run has returned)" } else { "" }
                ),
            ));
        }
        return Some(v);
    }
    if prop != "C10" {
        return None;
    }
    // per arbiter: FIFO among started tasks, at most once, on the arbiter's own thread
    let mut by_arb: HashMap<usize, Vec<&TaskRec>> = HashMap::new();
    for t in &st.tasks {
        by_arb.entry(t.arb).or_default().push(t);
    }
    let mut arbs: Vec<usize> = by_arb.keys().copied().collect();
    arbs.sort();
    for a in arbs {
        let ts = &by_arb[&a];
        let mut started: Vec<&&TaskRec> = ts.iter().filter(|t| t.starts > 0).collect();
        started.sort_by_key(|t| t.first_poll_order);
        for w in started.windows(2) {
            if w[0].seq > w[1].seq {
                return Some(Violation::new(
                    "fifo-broken",
                    format!("on arbiter {}, the task sent as #{} started before the task sent as #{}", arb_name(a), w[0].seq, w[1].seq),
                ));
            }
        }
        let want_thread = if a == usize::MAX { st.main_thread } else { st.arbs[a].thread };
        for t in ts {
            if t.starts > 1 {
                return Some(Violation::new("ran-twice", format!("a task sent to arbiter {} started {} times", arb_name(a), t.starts)));
            }
            if t.starts > 0 && !t.sent_ok {
                return Some(Violation::new("ran-although-rejected", format!("a task whose spawn returned false ran on arbiter {}", arb_name(a))));
            }
            if t.starts > 0 {
                if t.thread != want_thread && want_thread.is_some() {
                    return Some(Violation::new("wrong-thread", format!("a task sent to arbiter {} ran on another thread", arb_name(a))));
                }
                if t.sys_id != Some(st.sys_id) {
                    return Some(Violation::new("wrong-system", format!("System::current() inside a task on arbiter {} is {:?}, the creating system is {}", arb_name(a), t.sys_id, st.sys_id)));
                }
                if !t.has_current {
                    return Some(Violation::new("no-current-arbiter", format!("Arbiter::try_current() was None inside a task on arbiter {}", arb_name(a))));
                }
                if t.after_explicit_stop {
                    return Some(Violation::new("ran-after-stop", format!("a task sent to arbiter {} after stop() had been sent to it was started", arb_name(a))));
                }
            }
        }
    }
    for (parent, th) in &st.markers {
        let p = &st.tasks[*parent];
        if let Some(th) = th {
            if Some(*th) != p.thread {
                return Some(Violation::new("wrong-thread", "a task spawned through Arbiter::current() ran on a different arbiter's thread"));
            }
        }
    }
    None
}

fn evpush(events: &mut Vec<String>, s: String) {
    if std::env::var("RTSIM_DEBUG").is_ok() {
        eprintln!("[{:?}] {s}", thread::current().id());
    }
    events.push(s);
}

fn arb_name(a: usize) -> String {
    if a == usize::MAX {
        "sys".into()
    } else {
        a.to_string()
    }
}

pub struct RtSim;

fn gen_kind(rng: &mut Rng, c10: bool) -> TaskKind {
    match rng.below(if c10 { 12 } else { 10 }) {
        0 | 1 => TaskKind::Fn,
        2 | 3 => TaskKind::Fut,
        4 => TaskKind::PendK(rng.range(1, 3) as u8),
        5 => TaskKind::Panic,
        6 => TaskKind::ViaCurrent,
        7 => TaskKind::StopSystem(*rng.pick(&[0, 7, -1])),
        8 => TaskKind::SpawnOn(rng.usize_below(3)),
        9 => {
            if rng.chance(1, 3) {
                TaskKind::BlockUntilRun
            } else {
                TaskKind::Busy
            }
        }
        10 => TaskKind::StopSelf,
        _ => TaskKind::Fut,
    }
}

fn gen_ops(rng: &mut Rng, n: usize, main: bool, c10: bool) -> Vec<Op> {
    (0..n)
        .map(|_| match rng.below(14) {
            0 | 1 => Op::NewArbiter,
            2..=6 => Op::Spawn(if rng.chance(1, 6) { usize::MAX } else { rng.usize_below(3) }, gen_kind(rng, c10), rng.chance(1, 2)),
            7 => Op::StopArbiter(rng.usize_below(3)),
            8 => Op::JoinArbiter(rng.usize_below(3)),
            9 => Op::DropArbiter(rng.usize_below(3)),
            10 => {
                if rng.chance(1, 3) {
                    Op::SystemStop(*rng.pick(&[0, 7, -1]))
                } else {
                    Op::Nop
                }
            }
            11 if main => {
                if rng.chance(1, 4) {
                    Op::BlockOnUntilStopped
                } else {
                    Op::BlockOn(rng.range(0, 2) as u8, rng.range(0, 5) as i32)
                }
            }
            13 => match rng.below(9) {
                0..=2 => Op::OtherSystem,
                3 => Op::SpinBurst(*rng.pick(&[70u8, 100])),
                4 => Op::StopSysArbiter,
                5 | 6 if !main => Op::JoinRunning(rng.usize_below(3)),
                _ => Op::Nop,
            },
            12 => {
                if rng.chance(1, 3) {
                    Op::Burst(rng.usize_below(3), *rng.pick(&[5u8, 17, 40, 40, 135]))
                } else {
                    Op::Nop
                }
            }
            _ => Op::Nop,
        })
        .collect()
}

impl Engine for RtSim {
    type Config = Config;
    type Action = Action;
    const NAME: &'static str = "rtsim";

    fn properties() -> &'static [&'static str] {
        &["C09", "C10"]
    }
    fn level(_: &str) -> &'static str {
        "exploration"
    }
    fn isolate() -> bool {
        true
    }
    fn allow_unstable() -> bool {
        // SystemController keeps its arbiters in a HashMap with RandomState
        true
    }
    fn budget(_: &str, tier: Tier) -> (u64, u64) {
        match tier {
            Tier::Quick => (40_000, 60),
            Tier::Thorough => (2_000_000, 600),
        }
    }
    fn gen_config(prop: &str, _tier: Tier, rng: &mut Rng) -> Config {
        let c10 = prop == "C10";
        let n_main = rng.range(1, 10) as usize;
        let mut main_ops = vec![Op::NewArbiter];
        main_ops.extend(gen_ops(rng, n_main, true, c10));
        let nf = rng.range(1, 2) as usize;
        let foreign = (0..nf).map(|_| { let n = rng.range(0, 7) as usize; gen_ops(rng, n, false, c10) }).collect();
        Config { main_ops, foreign, max_actions: rng.range(50, 600) as usize, final_code: *rng.pick(&[0, 3]), use_run: rng.chance(1, 4), prior_system: rng.chance(1, 4) }
    }
    fn max_actions(_: &str, cfg: &Config) -> usize {
        cfg.max_actions
    }
    fn process_init() {}
    fn run(prop: &str, cfg: &Config, ch: &mut Chooser<Action>, ctx: &mut RunCtx) -> Option<Violation> {
        let taken_placeholder = Chooser::replay(Vec::new());
        let chooser = std::mem::replace(ch, taken_placeholder);
        let sim = Arc::new(Sim {
            st: Mutex::new(State {
                slots: vec![SlotState::Starting],
                arrived: vec![false],
                baton: 0,
                chooser: Some(chooser),
                events: Vec::new(),
                arb_slot: HashMap::new(),
                arb_thread: HashMap::new(),
                ready: Vec::new(),
                yields: 0,
                aborted: false,
                violation: None,
                seq: 0,
                poll_order: 0,
                arbs: Vec::new(),
                tasks: Vec::new(),
                first_stop: None,
                second_stop: false,
                sys_id: 0,
                main_thread: None,
                markers: Vec::new(),
                rr_phase: false,
                loop_ended: Vec::new(),
                refused_before_join: false,
                sys_arb_stopped: false,
                sys_arb_stop_seq: None,
                run_returned: false,
                blocked_until_run: false,
                waiting_in_block_on: false,
                stop_effect_under_block_on: false,
                spin_bursts: 0,
                joined_running: false,
                other_systems: 0,
                sysq: Default::default(),
                registered: Vec::new(),
                must_end: Vec::new(),
                exits_processed: 0,
            }),
            cv: Condvar::new(),
            run_id: RUN_COUNTER.fetch_add(1, Ordering::SeqCst),
        });
        // ids are process-wide counters: restarted, so that a run does not depend on how many
        // systems and arbiters earlier runs of this process created
        actix_rt::verif::reset_ids();
        actix_rt::verif::install(Arc::new(SimHooks(sim.clone())));
        let done = Arc::new(AtomicBool::new(false));
        let (s2, c2, d2) = (sim.clone(), cfg.clone(), done.clone());
        let h = thread::Builder::new()
            .name("rtsim-system".into())
            .spawn(move || {
                let r = catch_unwind(AssertUnwindSafe(|| sim_thread(s2.clone(), c2)));
                if let Err(p) = r {
                    let msg = p.downcast_ref::<&str>().map(|s| s.to_string()).or_else(|| p.downcast_ref::<String>().cloned()).unwrap_or_default();
                    let mut st = s2.st.lock().unwrap();
                    st.violation.get_or_insert(Violation::new("system-thread-panic", msg));
                    st.aborted = true;
                    drop(st);
                    s2.cv.notify_all();
                }
                d2.store(true, Ordering::SeqCst);
            })
            .expect("spawn system thread");
        let _ = h.join();
        actix_rt::verif::uninstall();
        let mut st = sim.st.lock().unwrap();
        *ch = st.chooser.take().unwrap();
        for e in std::mem::take(&mut st.events) {
            ev!(ctx, "{e}");
        }
        ctx.add("yields", st.yields);
        ctx.add("tasks_started", st.tasks.iter().filter(|t| t.starts > 0).count() as u64);
        ctx.add("arbiters", st.arbs.len() as u64);
        if st.second_stop {
            ctx.bump("probe.second_stop");
        }
        if st.arbs.iter().any(|a| a.dropped) {
            ctx.bump("probe.arbiter_struct_dropped");
        }
        if st.arbs.iter().any(|a| a.explicit_stop_seq.is_some()) {
            ctx.bump("probe.arbiter_stopped_early");
        }
        if st.tasks.iter().any(|t| t.after_explicit_stop && t.sent_ok) {
            ctx.bump("probe.task_sent_after_stop");
        }
        if st.tasks.iter().any(|t| t.kind == TaskKind::Panic && t.starts > 0) {
            ctx.bump("fault.task_panic");
        }
        if st.tasks.iter().any(|t| t.kind == TaskKind::Busy && t.starts > 0) {
            ctx.bump("fault.busy_arbiter");
        }
        if st.rr_phase {
            ctx.bump("round_robin_phase");
        }
        if cfg.prior_system {
            ctx.bump("probe.prior_system_on_thread");
        }
        if st.exits_processed >= 2 {
            ctx.bump("probe.second_exit_processed");
        }
        if st.blocked_until_run && st.run_returned {
            ctx.bump("probe.arbiter_blocked_across_stop");
        }
        if st.spin_bursts > 0 {
            ctx.bump("probe.system_thread_run_queue_loaded");
        }
        if st.joined_running {
            ctx.bump("probe.join_waiting_for_system_stop");
        }
        if st.tasks.iter().any(|t| t.arb == usize::MAX && t.after_explicit_stop) {
            ctx.bump("probe.task_sent_to_stopped_system_arbiter");
        }
        if st.other_systems > 0 && st.arbs.len() >= 2 {
            ctx.bump("probe.other_system_between_arbiters");
        }
        if st.stop_effect_under_block_on {
            ctx.bump("probe.stop_took_effect_under_block_on");
        }
        {
            let stop_seq = st.first_stop.map(|s| s.0).unwrap_or(u64::MAX);
            if st.arbs.iter().any(|a| a.new_returned_seq > stop_seq && st.must_end.contains(&a.arb_id)) {
                ctx.bump("probe.arbiter_between_stops_told");
            }
        }
        if st.refused_before_join {
            ctx.bump("probe.spawn_refused_before_join");
        }
        if !st.markers.is_empty() {
            ctx.bump("probe.marker_via_current");
        }
        ctx.state(simcore::runner::hash_u64s(&[st.arbs.len() as u64, st.tasks.iter().filter(|t| t.starts > 0).count() as u64, st.first_stop.map_or(0, |s| s.1 as u64 + 10)]));
        ctx.nontrivial = st.tasks.iter().any(|t| t.starts > 0) && !st.arbs.is_empty();
        final_oracles(&mut st, prop)
    }
    fn shrink_config(_: &str, cfg: &Config) -> Vec<Config> {
        let mut v = Vec::new();
        if cfg.prior_system {
            let mut c = cfg.clone();
            c.prior_system = false;
            v.push(c);
        }
        for i in 1..cfg.main_ops.len() {
            let mut c = cfg.clone();
            c.main_ops.remove(i);
            v.push(c);
        }
        for f in 0..cfg.foreign.len() {
            for i in 0..cfg.foreign[f].len() {
                let mut c = cfg.clone();
                c.foreign[f].remove(i);
                v.push(c);
            }
        }
        v
    }
    fn describe(prop: &str) -> Describe {
        Describe {
            rule: format!(
                "seeded programs (<=11 ops on the system thread, 1..2 foreign threads with <=7 ops; ops: new arbiter (<=3), spawn fn/future/pending-k/panicking/busy/self-stopping/system-stopping/cross-spawning task through the owner or a cloned handle or Arbiter::current(), stop / join / drop an arbiter, stop_with_code(0|7|-1), block_on (also: until the stop has taken effect on the arbiters), bursts of 5-135 commands, a task that blocks its arbiter until run() has returned, another System created and dropped on a thread of its own, a System that lived earlier on the system thread) executed on real OS threads under a baton scheduler whose every choice (who runs next, at runtime ticks, at arbiter life-cycle points, at every runner/controller loop iteration) comes from the seed; {}; non-trivial = >=1 arbiter and >=1 task started; distinct = distinct event-trace hash",
                if prop == "C09" { "oracle: run_with_code returns the first stop's code, every arbiter created before the first stop ends and joins" } else { "oracle: per-arbiter FIFO start order, at most once, own thread, System/Arbiter::current identity (also on a thread that hosted another System before; Arbiter::current() inside a running task is a live handle), nothing sent after stop() starts, spawn/stop false once the event loop has returned and after join, join not early, block_on output" }
            ),
            real: vec!["actix_rt::{System, SystemRunner, SystemController, Arbiter, ArbiterHandle, ArbiterRunner, Runtime}", "tokio current_thread runtimes + LocalSet on real OS threads", "thread-locals HANDLE / CURRENT"],
            stub: vec!["OS scheduler (baton: one registered thread runs at a time)", "runtimes never park in the kernel (perpetual ticker task installed through on_thread_park)", "blocking joins run without the baton and become schedulable when the joined thread has ended"],
            assumptions: vec!["interleaving granularity = runtime tick + hook points; no preemption inside tokio internals", "sampling, not exhaustive enumeration"],
        }
    }
    fn required_probes(prop: &str, _tier: Tier) -> Vec<&'static str> {
        if prop == "C09" {
            vec!["probe.second_stop", "probe.arbiter_struct_dropped", "probe.arbiter_stopped_early", "fault.busy_arbiter", "probe.arbiter_blocked_across_stop", "probe.second_exit_processed", "probe.other_system_between_arbiters", "probe.stop_took_effect_under_block_on", "probe.system_thread_run_queue_loaded", "probe.join_waiting_for_system_stop"]
        } else {
            vec!["probe.task_sent_after_stop", "probe.marker_via_current", "fault.task_panic", "probe.prior_system_on_thread", "probe.spawn_refused_before_join", "probe.task_sent_to_stopped_system_arbiter"]
        }
    }
}

fn main() {
    simcore::main_for::<RtSim>()
}
