//! tlssim — C18: real actix-tls acceptor services (rustls 0.23 and OpenSSL) over an in-memory
//! duplex transport with a hand-driven rustls client peer, a paused tokio clock and seeded
//! delivery / stall / garbage / disconnect faults. C19 (connectors) lives in `connsim`.

mod connsim;
mod duplex;

use std::{
    cell::RefCell,
    future::Future,
    io::{Read, Write},
    pin::Pin,
    rc::Rc,
    sync::{Arc, OnceLock},
    task::{Context, Poll},
    time::Duration,
};

use actix_service::{Service, ServiceFactory};
use actix_tls::accept::{openssl as acc_openssl, rustls_0_23 as acc_rustls, TlsError};
use duplex::{Half, Pipe};
use rustls::pki_types::{CertificateDer, PrivateKeyDer, ServerName};
use serde::{Deserialize, Serialize};
use simcore::{ev, runner::hash_u64s, wake::TaskWake, Chooser, Describe, Engine, Rng, RunCtx, Tier, Violation};
use tokio::io::{AsyncRead, AsyncWrite, ReadBuf};

pub struct Pki {
    pub ca_der: Vec<u8>,
    pub leaf_der: Vec<u8>,
    pub leaf_key_der: Vec<u8>,
    /// certificate for another name, signed by the same CA
    pub other_der: Vec<u8>,
    pub other_key_der: Vec<u8>,
    /// certificate for the right name, signed by an unknown CA
    pub rogue_der: Vec<u8>,
    pub rogue_key_der: Vec<u8>,
    /// certificate for IP 127.0.0.1 only
    pub ip_der: Vec<u8>,
    pub ip_key_der: Vec<u8>,
    /// trusted certificate whose subject CN is the good name but whose SAN lists another name
    /// only (a name is verified against the SAN when there is one, never against the CN)
    pub cn_der: Vec<u8>,
    pub cn_key_der: Vec<u8>,
}

pub const GOOD_NAME: &str = "sim.test";

pub fn pki() -> &'static Pki {
    static PKI: OnceLock<Pki> = OnceLock::new();
    PKI.get_or_init(|| {
        use rcgen::{BasicConstraints, CertificateParams, IsCa, KeyPair};
        let _ = rustls::crypto::aws_lc_rs::default_provider().install_default();
        let mk_ca = |cn: &str| {
            let mut p = CertificateParams::new(Vec::<String>::new()).unwrap();
            p.is_ca = IsCa::Ca(BasicConstraints::Unconstrained);
            p.distinguished_name.push(rcgen::DnType::CommonName, cn);
            let k = KeyPair::generate().unwrap();
            let c = p.self_signed(&k).unwrap();
            (c, k)
        };
        let (ca, ca_key) = mk_ca("sim root");
        let (rogue_ca, rogue_ca_key) = mk_ca("rogue root");
        let leaf = |names: Vec<String>, ca: &rcgen::Certificate, cak: &KeyPair| {
            let p = CertificateParams::new(names).unwrap();
            let k = KeyPair::generate().unwrap();
            let c = p.signed_by(&k, ca, cak).unwrap();
            (c.der().to_vec(), k.serialize_der())
        };
        let (leaf_der, leaf_key_der) = leaf(vec![GOOD_NAME.into(), "localhost".into()], &ca, &ca_key);
        let (other_der, other_key_der) = leaf(vec!["other.test".into()], &ca, &ca_key);
        let (rogue_der, rogue_key_der) = leaf(vec![GOOD_NAME.into()], &rogue_ca, &rogue_ca_key);
        let (ip_der, ip_key_der) = leaf(vec!["127.0.0.1".into()], &ca, &ca_key);
        let (cn_der, cn_key_der) = {
            let mut p = CertificateParams::new(vec!["other.test".to_string()]).unwrap();
            p.distinguished_name.push(rcgen::DnType::CommonName, GOOD_NAME);
            let k = KeyPair::generate().unwrap();
            let c = p.signed_by(&k, &ca, &ca_key).unwrap();
            (c.der().to_vec(), k.serialize_der())
        };
        Pki { ca_der: ca.der().to_vec(), leaf_der, leaf_key_der, other_der, other_key_der, rogue_der, rogue_key_der, ip_der, ip_key_der, cn_der, cn_key_der }
    })
}

pub fn client_config(tls12: bool) -> Arc<rustls::ClientConfig> {
    let mut roots = rustls::RootCertStore::empty();
    roots.add(CertificateDer::from(pki().ca_der.clone())).unwrap();
    let b = if tls12 {
        rustls::ClientConfig::builder_with_protocol_versions(&[&rustls::version::TLS12])
    } else {
        rustls::ClientConfig::builder_with_protocol_versions(&[&rustls::version::TLS13])
    };
    Arc::new(b.with_root_certificates(roots).with_no_client_auth())
}

pub fn server_config(cert: &[u8], key: &[u8]) -> rustls::ServerConfig {
    rustls::ServerConfig::builder()
        .with_no_client_auth()
        .with_single_cert(vec![CertificateDer::from(cert.to_vec())], PrivateKeyDer::try_from(key.to_vec()).unwrap())
        .unwrap()
}

// ------------------------------------------------------------------------------------------------

#[derive(Serialize, Deserialize, Clone, Debug, PartialEq)]
pub enum Kind {
    Rustls,
    Openssl,
}

#[derive(Serialize, Deserialize, Clone, Debug)]
pub struct Config {
    #[serde(default)]
    pub conn: Option<connsim::CConfig>,
    kind: Kind,
    tls12: bool,
    limit: usize,
    timeout_ms: u64,
    /// build the services from a clone of the configured acceptor
    use_clone: bool,
    services: usize,
    pipe_cap: usize,
    payload_seed: u64,
    payload_len: usize,
    max_actions: usize,
    max_calls: usize,
    w_deliver: u32,
    w_fault: u32,
    w_advance: u32,
    /// the client of an established stream reads only when the server is blocked or done, so
    /// that the server's TLS send buffer fills up
    #[serde(default)]
    stall_client: bool,
    /// with two services on the thread, the second one is of the other TLS backend
    #[serde(default)]
    mixed: bool,
    /// the server reads with a 512-byte buffer (less than one transport read decrypts)
    #[serde(default)]
    small_reads: bool,
    /// `max_concurrent_tls_connect` is called with another value after the first service exists
    /// (the per-thread counter keeps the limit it was created with)
    #[serde(default)]
    limit_changed_later: bool,
}

#[derive(Serialize, Deserialize, Clone, Debug, PartialEq)]
pub enum Action {
    Call(usize),
    PollReady(usize),
    PollFut(usize),
    ClientSend(usize, u8),
    ClientRecv(usize),
    Garbage(usize),
    Disconnect(usize),
    Reset(usize),
    Advance(u64),
    DropFut(usize),
    SrvWrite(usize, u32),
    /// vectored write of two slices of the given lengths
    #[serde(alias = "SrvWriteV")]
    SrvWriteV(usize, u32, u32),
    SrvFlush(usize),
    /// shut the accepted stream down from the server side (close_notify behind everything written)
    SrvShutdown(usize),
    SrvRead(usize),
    /// the client, having delivered everything it wrote, closes its sending direction (FIN)
    ClientFin(usize),
    CliWrite(usize, u32),
    // connsim
    C(connsim::CAction),
}

pub trait Rw: AsyncRead + AsyncWrite {}
impl<T: AsyncRead + AsyncWrite> Rw for T {}
type BoxStream = Pin<Box<dyn Rw>>;

#[derive(Debug, Clone, Copy, PartialEq)]
enum Outcome {
    Stream,
    Tls,
    Timeout,
}

type AccFut = Pin<Box<dyn Future<Output = Result<BoxStream, Outcome>>>>;

trait ErasedSvc {
    fn poll_ready(&self, cx: &mut Context<'_>) -> Poll<bool>;
    fn call(&self, io: Half) -> AccFut;
}

struct RSvc(acc_rustls::AcceptorService);
impl ErasedSvc for RSvc {
    fn poll_ready(&self, cx: &mut Context<'_>) -> Poll<bool> {
        <acc_rustls::AcceptorService as Service<Half>>::poll_ready(&self.0, cx).map(|r| r.is_ok())
    }
    fn call(&self, io: Half) -> AccFut {
        let f = <acc_rustls::AcceptorService as Service<Half>>::call(&self.0, io);
        Box::pin(MapAcc { f: Box::pin(f), conv: |r| match r {
            Ok(s) => Ok(Box::pin(s) as BoxStream),
            Err(TlsError::Timeout) => Err(Outcome::Timeout),
            Err(_) => Err(Outcome::Tls),
        } })
    }
}

struct OSvc(acc_openssl::AcceptorService);
impl ErasedSvc for OSvc {
    fn poll_ready(&self, cx: &mut Context<'_>) -> Poll<bool> {
        <acc_openssl::AcceptorService as Service<Half>>::poll_ready(&self.0, cx).map(|r| r.is_ok())
    }
    fn call(&self, io: Half) -> AccFut {
        let f = <acc_openssl::AcceptorService as Service<Half>>::call(&self.0, io);
        Box::pin(MapAcc { f: Box::pin(f), conv: |r| match r {
            Ok(s) => Ok(Box::pin(s) as BoxStream),
            Err(TlsError::Timeout) => Err(Outcome::Timeout),
            Err(_) => Err(Outcome::Tls),
        } })
    }
}

/// Plain forwarding adapter (no async block: one poll of it is exactly one poll of the inner future).
struct MapAcc<T, U> {
    f: Pin<Box<dyn Future<Output = T>>>,
    conv: fn(T) -> U,
}
impl<T, U> Future for MapAcc<T, U> {
    type Output = U;
    fn poll(mut self: Pin<&mut Self>, cx: &mut Context<'_>) -> Poll<U> {
        let conv = self.conv;
        self.f.as_mut().poll(cx).map(conv)
    }
}

struct Conn {
    t_call: u64,
    fut: Option<AccFut>,
    task: TaskWake,
    parked: bool,
    c2s: Rc<RefCell<Pipe>>,
    s2c: Rc<RefCell<Pipe>>,
    client: rustls::ClientConnection,
    outbox: Vec<u8>,
    garbage: bool,
    /// garbage was queued ahead of handshake bytes the server still needs
    garbage_fatal: bool,
    cut: bool,
    outcome: Option<(Outcome, u64)>,
    stream: Option<BoxStream>,
    io_task: TaskWake,
    p_c2s: Vec<u8>,
    c_written: usize,
    s_read: Vec<u8>,
    p_s2c: Vec<u8>,
    s_written: usize,
    s_flushed: bool,
    c_read: Vec<u8>,
    sends: u32,
    out_tail: usize,
    /// handshake flights the client has produced so far (ClientHello = 1, final flight = 2)
    flights: u32,
    /// the server's last write or flush on the stream returned Pending
    srv_blocked: bool,
    /// the server has started / completed `poll_shutdown` on the stream
    s_shutting: bool,
    s_shut: bool,
    s_reads: u32,
    /// the server's last read returned Pending and nothing has been delivered to it since
    read_pending: bool,
    /// the client has half-closed after delivering all of its payload
    fin_sent: bool,
}

fn payload(seed: u64, len: usize, salt: u64) -> Vec<u8> {
    let mut r = Rng::new(seed ^ salt.wrapping_mul(0x9E37_79B9));
    (0..len).map(|_| r.next_u64() as u8).collect()
}

impl Conn {
    fn pump_client_out(&mut self) {
        if self.outbox.is_empty() && self.client.wants_write() {
            self.flights += 1;
        }
        while self.client.wants_write() {
            if self.client.write_tls(&mut self.outbox).is_err() {
                break;
            }
        }
    }
    fn client_recv(&mut self) -> usize {
        let data = self.s2c.borrow_mut().drain(usize::MAX);
        let n = data.len();
        let mut rd = &data[..];
        let mut buf = [0u8; 4096];
        while !rd.is_empty() {
            if self.client.read_tls(&mut rd).is_err() {
                break;
            }
            if self.client.process_new_packets().is_err() {
                break;
            }
            // keep the plaintext buffer drained, otherwise read_tls refuses further input
            loop {
                match self.client.reader().read(&mut buf) {
                    Ok(0) => break,
                    Ok(k) => self.c_read.extend_from_slice(&buf[..k]),
                    Err(_) => break,
                }
            }
        }
        self.pump_client_out();
        n
    }
}

fn now_ms(start: tokio::time::Instant) -> u64 {
    start.elapsed().as_millis() as u64
}

async fn run_accept(cfg: &Config, ch: &mut Chooser<Action>, ctx: &mut RunCtx) -> Option<Violation> {
    let start = tokio::time::Instant::now();
    let pk = pki();
    let timeout = Duration::from_millis(cfg.timeout_ms);
    let other = |k: &Kind| if *k == Kind::Rustls { Kind::Openssl } else { Kind::Rustls };
    let kinds: Vec<Kind> = (0..cfg.services).map(|i| if cfg.mixed && i == 1 { other(&cfg.kind) } else { cfg.kind.clone() }).collect();
    let rustls_acceptor = {
        let mut a = acc_rustls::Acceptor::new(server_config(&pk.leaf_der, &pk.leaf_key_der));
        a.set_handshake_timeout(timeout);
        if cfg.use_clone { a.clone() } else { a }
    };
    let openssl_acceptor = {
        use openssl::{pkey::PKey, ssl::{SslAcceptor, SslMethod}, x509::X509};
        let mut b = SslAcceptor::mozilla_intermediate_v5(SslMethod::tls()).unwrap();
        b.set_private_key(&PKey::private_key_from_der(&pk.leaf_key_der).unwrap()).unwrap();
        b.set_certificate(&X509::from_der(&pk.leaf_der).unwrap()).unwrap();
        let mut a = acc_openssl::Acceptor::new(b.build());
        a.set_handshake_timeout(timeout);
        if cfg.use_clone { a.clone() } else { a }
    };
    let mut built = 0usize;
    let svcs: Vec<Box<dyn ErasedSvc>> = kinds
        .iter()
        .map(|k| {
            if built == 1 && cfg.limit_changed_later {
                // later services of the thread still share the counter (and the limit) of the first
                actix_tls::accept::max_concurrent_tls_connect(cfg.limit + 1);
                ctx.bump("probe.limit_changed_between_services");
            }
            built += 1;
            k
        })
        .map(|k| match k {
            Kind::Rustls => {
                let s = futures_now(<acc_rustls::Acceptor as ServiceFactory<Half>>::new_service(&rustls_acceptor, ()));
                Box::new(RSvc(s.unwrap())) as Box<dyn ErasedSvc>
            }
            Kind::Openssl => {
                let s = futures_now(<acc_openssl::Acceptor as ServiceFactory<Half>>::new_service(&openssl_acceptor, ()));
                Box::new(OSvc(s.unwrap())) as Box<dyn ErasedSvc>
            }
        })
        .collect();
    if kinds.len() == 2 && kinds[0] != kinds[1] {
        ctx.bump("probe.two_backends_on_one_thread");
    }
    let ccfg = client_config(cfg.tls12 && cfg.kind == Kind::Rustls || cfg.tls12);
    let mut conns: Vec<Conn> = Vec::new();
    let mut ready_tasks: Vec<TaskWake> = (0..cfg.services).map(|_| TaskWake::new()).collect();
    let mut ready_parked = vec![false; cfg.services];
    // the registration that a release must wake: (service, flag)
    let mut refused: Option<(usize, Arc<simcore::wake::WakeFlag>)> = None;
    let mut streams_ok = 0;
    let mut draining = false;
    let mut drain_step = 0u32;

    macro_rules! alive {
        () => {
            conns.iter().filter(|c| c.fut.is_some()).count()
        };
    }

    loop {
        let now = now_ms(start);
        let mut en: Vec<(Action, u32)> = Vec::new();
        if !draining {
            if conns.len() < cfg.max_calls {
                for s in 0..cfg.services {
                    en.push((Action::Call(s), 3));
                }
            }
            for s in 0..cfg.services {
                if !ready_parked[s] || ready_tasks[s].woken() {
                    en.push((Action::PollReady(s), 2));
                }
            }
            // The clock is only ever sampled at multiples of 5 ms while every deadline is
            // congruent 2 mod 5 (timeouts are 5k+2 ms): no observation falls within a millisecond
            // of a timer deadline, where tokio's tick rounding would decide the outcome.
            en.push((Action::Advance(5), cfg.w_advance));
            en.push((Action::Advance(50), cfg.w_advance));
            en.push((Action::Advance((cfg.timeout_ms / 10) * 5), cfg.w_advance));
            en.push((Action::Advance(cfg.timeout_ms + 3), cfg.w_advance));
        }
        for (i, c) in conns.iter().enumerate() {
            if c.fut.is_some() && (!c.parked || c.task.woken()) {
                en.push((Action::PollFut(i), 6));
            }
            if draining {
                continue;
            }
            if c.fut.is_some() {
                if i % 4 == 3 {
                    en.push((Action::DropFut(i), 1));
                }
                if !c.garbage && !c.cut {
                    en.push((Action::Garbage(i), cfg.w_fault));
                    en.push((Action::Disconnect(i), cfg.w_fault));
                    en.push((Action::Reset(i), cfg.w_fault));
                }
            }
            // once a call has failed (or was cancelled) its client is of no further interest
            let live = c.fut.is_some() || c.stream.is_some();
            if !live {
                continue;
            }
            if !c.outbox.is_empty() && !c.cut {
                for f in 0..3u8 {
                    en.push((Action::ClientSend(i, f), cfg.w_deliver));
                }
            }
            let stalled = cfg.stall_client && c.stream.is_some() && !c.srv_blocked && !c.s_shutting && c.s_written < c.p_s2c.len();
            if !c.s2c.borrow().buf.is_empty() && !stalled {
                en.push((Action::ClientRecv(i), cfg.w_deliver * 2));
            }
            if c.stream.is_some() && c.s_shutting {
                if !c.s_shut {
                    en.push((Action::SrvShutdown(i), 3));
                }
            } else if c.stream.is_some() {
                if c.s_written > 0 && !c.s_flushed {
                    en.push((Action::SrvShutdown(i), 1));
                }
                if c.s_written < c.p_s2c.len() {
                    en.push((Action::SrvWriteV(i, 0, 700), 1));
                    en.push((Action::SrvWrite(i, 700), 2));
                    en.push((Action::SrvWrite(i, 20000), 2));
                    en.push((Action::SrvWrite(i, 60000), 1));
                    en.push((Action::SrvWriteV(i, 5, 700), 1));
                    en.push((Action::SrvWriteV(i, 700, 8000), 1));
                    en.push((Action::SrvWriteV(i, 3000, 13000), 1));
                } else if !c.s_flushed {
                    en.push((Action::SrvFlush(i), 3));
                }
                if c.s_read.len() < c.p_c2s.len() && !c.s_flushed {
                    en.push((Action::SrvRead(i), 3));
                }
                if c.c_written < c.p_c2s.len() {
                    en.push((Action::CliWrite(i, 900), 2));
                    en.push((Action::CliWrite(i, 30000), 2));
                } else if !c.fin_sent && c.outbox.is_empty() && !c.client.is_handshaking() && !c.p_c2s.is_empty() {
                    en.push((Action::ClientFin(i), 1));
                }
            }
        }
        let a = if !draining {
            match ch.choose(&en) {
                Some(a) => a,
                None => {
                    draining = true;
                    continue;
                }
            }
        } else {
            // drain: resolve every handshake (deliver what the clients have, then run the clock
            // past every deadline), then finish both payload directions, then compare
            drain_step += 1;
            if drain_step > 200_000 {
                return Some(Violation::new("drain-livelock", "drain phase does not terminate"));
            }
            let mut pick: Option<Action> = None;
            for (i, c) in conns.iter().enumerate() {
                if c.fut.is_some() && (!c.parked || c.task.woken()) {
                    pick = Some(Action::PollFut(i));
                    break;
                }
                if c.fut.is_some() && !c.cut {
                    if !c.outbox.is_empty() {
                        pick = Some(Action::ClientSend(i, 0));
                        break;
                    }
                    if !c.s2c.borrow().buf.is_empty() {
                        pick = Some(Action::ClientRecv(i));
                        break;
                    }
                }
            }
            if pick.is_none() && conns.iter().any(|c| c.fut.is_some()) {
                let next_deadline = conns.iter().filter(|c| c.fut.is_some()).map(|c| c.t_call + cfg.timeout_ms).min().unwrap();
                if now <= next_deadline + 1 {
                    pick = Some(Action::Advance(next_deadline + 3 - now));
                } else {
                    let i = conns.iter().position(|c| c.fut.is_some() && c.t_call + cfg.timeout_ms == next_deadline).unwrap();
                    return Some(
                        Violation::new(
                            "handshake-unbounded",
                            format!("accept call {i} made at {}ms with a {}ms handshake timeout is still unresolved and un-woken at {now}ms", conns[i].t_call, cfg.timeout_ms),
                        )
                        .fact("acceptor", format!("{:?}", cfg.kind)),
                    );
                }
            }
            if pick.is_none() {
                // payload phase, deterministic order
                for (i, c) in conns.iter().enumerate() {
                    if c.stream.is_none() {
                        continue;
                    }
                    if c.s_shutting && !c.s_shut {
                        if c.s2c.borrow().buf.len() >= c.s2c.borrow().capacity {
                            pick = Some(Action::ClientRecv(i));
                        } else {
                            pick = Some(Action::SrvShutdown(i));
                        }
                    } else if c.s_shut {
                        if !c.s2c.borrow().buf.is_empty() {
                            pick = Some(Action::ClientRecv(i));
                        }
                    } else if c.c_written < c.p_c2s.len() {
                        pick = Some(Action::CliWrite(i, 16000));
                    } else if !c.outbox.is_empty() {
                        pick = Some(Action::ClientSend(i, 0));
                    } else if c.s_read.len() < c.p_c2s.len() && !c.s_flushed && (!c.c2s.borrow().buf.is_empty() || !c.read_pending) {
                        pick = Some(Action::SrvRead(i));
                    } else if c.s_written < c.p_s2c.len() {
                        // the server can only make progress if the client drains the pipe
                        if c.s2c.borrow().buf.len() >= c.s2c.borrow().capacity {
                            pick = Some(Action::ClientRecv(i));
                        } else {
                            pick = Some(Action::SrvWrite(i, 16000));
                        }
                    } else if !c.s_flushed {
                        if c.s2c.borrow().buf.len() >= c.s2c.borrow().capacity {
                            pick = Some(Action::ClientRecv(i));
                        } else {
                            pick = Some(Action::SrvFlush(i));
                        }
                    } else if !c.s2c.borrow().buf.is_empty() {
                        pick = Some(Action::ClientRecv(i));
                    }
                    if pick.is_some() {
                        break;
                    }
                }
            }
            match pick {
                Some(a) => a,
                None => break,
            }
        };
        match a {
            Action::Call(s) => {
                let c2s = Pipe::new(1 << 20);
                // Unbounded while the handshake runs (flight lengths vary by a few bytes from one
                // handshake to the next, so a bounded pipe would make progress length-dependent);
                // the configured capacity applies to the payload phase.
                let s2c = Pipe::new(1 << 20);
                let half = Half { rx: c2s.clone(), tx: s2c.clone(), shutdown: false };
                let mut client = rustls::ClientConnection::new(ccfg.clone(), ServerName::try_from(GOOD_NAME).unwrap()).unwrap();
                client.set_buffer_limit(None);
                let fut = svcs[s].call(half);
                let id = conns.len();
                let mut c = Conn {
                    t_call: now,
                    fut: Some(fut),
                    task: TaskWake::new(),
                    parked: false,
                    c2s,
                    s2c,
                    client,
                    outbox: Vec::new(),
                    garbage: false,
                    garbage_fatal: false,
                    cut: false,
                    outcome: None,
                    stream: None,
                    io_task: TaskWake::new(),
                    p_c2s: payload(cfg.payload_seed, cfg.payload_len, 2 * id as u64 + 1),
                    c_written: 0,
                    s_read: Vec::new(),
                    p_s2c: payload(cfg.payload_seed, cfg.payload_len, 2 * id as u64 + 2),
                    s_written: 0,
                    s_flushed: false,
                    c_read: Vec::new(),
                    sends: 0,
                    out_tail: 0,
                    flights: 0,
                    srv_blocked: false,
                    s_shutting: false,
                    s_shut: false,
                    s_reads: 0,
                    read_pending: false,
                    fin_sent: false,
                };
                c.pump_client_out();
                conns.push(c);
                ev!(ctx, "call #{id} on service {s} at {now}ms (alive {})", alive!());
                if alive!() > cfg.limit {
                    ctx.bump("probe.call_over_limit");
                }
            }
            Action::PollReady(s) => {
                let (flag, w) = ready_tasks[s].fresh();
                let mut cx = Context::from_waker(&w);
                let r = svcs[s].poll_ready(&mut cx);
                let n = alive!();
                ev!(ctx, "poll_ready service {s} -> {r:?} (alive {n}, limit {})", cfg.limit);
                match r {
                    Poll::Ready(true) => {
                        ready_parked[s] = false;
                        if n >= cfg.limit {
                            return Some(Violation::new(
                                "ready-over-limit",
                                format!("poll_ready reported ready with {n} handshakes in progress on the thread and a limit of {}", cfg.limit),
                            ));
                        }
                    }
                    Poll::Pending => {
                        ready_parked[s] = true;
                        ctx.bump("probe.not_ready_at_limit");
                        if n < cfg.limit {
                            return Some(Violation::new(
                                "pending-under-limit",
                                format!("poll_ready reported not ready with only {n} handshakes in progress (limit {})", cfg.limit),
                            ));
                        }
                        refused = Some((s, flag));
                    }
                    Poll::Ready(false) => return Some(Violation::new("ready-error", "poll_ready returned an error")),
                }
            }
            Action::PollFut(i) | Action::DropFut(i) => {
                let before = alive!();
                let mut released = false;
                if matches!(a, Action::DropFut(_)) {
                    conns[i].fut = None;
                    conns[i].cut = true;
                    released = true;
                    ctx.bump("probe.handshake_cancelled");
                    ev!(ctx, "drop accept future #{i}");
                } else {
                    let c = &mut conns[i];
                    let (_f, w) = c.task.fresh();
                    let mut cx = Context::from_waker(&w);
                    let r = c.fut.as_mut().unwrap().as_mut().poll(&mut cx);
                    match r {
                        Poll::Pending => {
                            c.parked = true;
                            ev!(ctx, "poll accept #{i} -> pending at {now}ms");
                        }
                        Poll::Ready(res) => {
                            c.fut = None; // dropped on resolution, exactly as `.await` does
                            released = true;
                            let oc = match &res {
                                Ok(_) => Outcome::Stream,
                                Err(o) => *o,
                            };
                            c.outcome = Some((oc, now));
                            ev!(ctx, "poll accept #{i} -> {oc:?} at {now}ms");
                            let deadline = c.t_call + cfg.timeout_ms;
                            match oc {
                                Outcome::Timeout => {
                                    ctx.bump("probe.timeout_outcome");
                                    if now < deadline {
                                        return Some(Violation::new(
                                            "timeout-early",
                                            format!("accept call {i} made at {}ms resolved with Timeout at {now}ms, before its {}ms handshake timeout", c.t_call, cfg.timeout_ms),
                                        ));
                                    }
                                }
                                Outcome::Tls => {
                                    ctx.bump("probe.tls_error_outcome");
                                    if !c.garbage && !c.cut {
                                        return Some(Violation::new("spurious-tls-error", format!("accept call {i} failed with a TLS error although the client behaved correctly")));
                                    }
                                }
                                Outcome::Stream => {
                                    streams_ok += 1;
                                    ctx.bump("probe.stream_outcome");
                                    if c.garbage_fatal {
                                        return Some(Violation::new("stream-after-garbage", format!("accept call {i} produced a stream although the client sent garbage during the handshake")));
                                    }
                                }
                            }
                            if let Ok(s) = res {
                                c.stream = Some(s);
                                c.s2c.borrow_mut().capacity = cfg.pipe_cap;
                            }
                        }
                    }
                }
                if released && before == cfg.limit {
                    // the count dropped below the limit: the last refused poll_ready must be woken
                    if let Some((s, flag)) = refused.take() {
                        ctx.bump("probe.release_at_limit");
                        if !flag.fired() {
                            return Some(
                                Violation::new(
                                    "no-wake-at-limit",
                                    format!("a handshake ended, taking the count from {before} to {} (limit {}), but the task last refused by poll_ready (service {s}) was not woken", before - 1, cfg.limit),
                                )
                                .fact("acceptor", format!("{:?}", cfg.kind)),
                            );
                        }
                    }
                }
            }
            Action::ClientSend(i, frac) => {
                let c = &mut conns[i];
                let n = duplex::delivery_len(&c.outbox, frac, &mut c.out_tail);
                let data: Vec<u8> = c.outbox.drain(..n).collect();
                c.c2s.borrow_mut().push(&data);
                c.read_pending = false;
                c.sends += 1;
                ev!(ctx, "client #{i} delivers (mode {frac})");
            }
            Action::ClientRecv(i) => {
                conns[i].srv_blocked = false;
                conns[i].client_recv();
                ev!(ctx, "client #{i} receives");
            }
            Action::Garbage(i) => {
                let c = &mut conns[i];
                c.garbage = true;
                // fatal for the handshake iff the server still needs client bytes queued behind it
                c.garbage_fatal = c.flights < 2 || !c.outbox.is_empty();
                // At a record boundary the first byte is an invalid content type. Inside a record
                // that was cut one byte short the first byte takes the place of that record's last
                // byte: it is chosen to differ from it, otherwise the record would arrive intact
                // once in 256 handshakes (ciphertext bytes are random).
                let first = if c.out_tail > 0 && !c.outbox.is_empty() { c.outbox[0] ^ 0xFF } else { 0u8 };
                c.c2s.borrow_mut().push(&[first, 1, 2, 3, 4, 5, 6, 7, 8, 9, 10, 11, 12, 13, 14, 15]);
                ctx.bump("fault.garbage");
                ev!(ctx, "client #{i} sends garbage");
            }
            Action::ClientFin(i) => {
                // not a fault: everything written before the FIN must still be readable
                conns[i].fin_sent = true;
                conns[i].read_pending = false;
                conns[i].c2s.borrow_mut().close();
                ctx.bump("probe.client_fin_after_payload");
                ev!(ctx, "client #{i} half-closes after its payload");
            }
            Action::Disconnect(i) => {
                conns[i].cut = true;
                conns[i].c2s.borrow_mut().close();
                ctx.bump("fault.disconnect");
                ev!(ctx, "client #{i} disconnects");
            }
            Action::Reset(i) => {
                conns[i].cut = true;
                conns[i].c2s.borrow_mut().reset();
                conns[i].s2c.borrow_mut().reset();
                ctx.bump("fault.reset");
                ev!(ctx, "client #{i} resets");
            }
            Action::Advance(ms) => {
                tokio::time::advance(Duration::from_millis(ms)).await;
                tokio::task::yield_now().await;
                ev!(ctx, "advance {ms}ms -> {}ms", now_ms(start));
                ctx.bump("advances");
            }
            Action::SrvWrite(i, chunk) => {
                let c = &mut conns[i];
                let (_f, w) = c.io_task.fresh();
                let mut cx = Context::from_waker(&w);
                let end = (c.s_written + chunk as usize).min(c.p_s2c.len());
                let data = c.p_s2c[c.s_written..end].to_vec();
                match c.stream.as_mut().unwrap().as_mut().poll_write(&mut cx, &data) {
                    Poll::Ready(Ok(n)) => {
                        c.s_written += n;
                        ev!(ctx, "server #{i} writes");
                    }
                    Poll::Ready(Err(_)) => {
                        c.stream = None;
                    }
                    Poll::Pending => {
                        c.srv_blocked = true;
                        ctx.bump("probe.server_write_backpressure");
                        ev!(ctx, "server #{i} write pending");
                    }
                }
            }
            Action::SrvWriteV(i, la, lb) => {
                let c = &mut conns[i];
                let (_f, w) = c.io_task.fresh();
                let mut cx = Context::from_waker(&w);
                let mid = (c.s_written + la as usize).min(c.p_s2c.len());
                let end = (mid + lb as usize).min(c.p_s2c.len());
                let (a, b) = (c.p_s2c[c.s_written..mid].to_vec(), c.p_s2c[mid..end].to_vec());
                let bufs = [std::io::IoSlice::new(&a), std::io::IoSlice::new(&b)];
                match c.stream.as_mut().unwrap().as_mut().poll_write_vectored(&mut cx, &bufs) {
                    Poll::Ready(Ok(n)) => {
                        if n == 0 && a.len() + b.len() > 0 {
                            return Some(
                                Violation::new(
                                    "payload-stalled",
                                    format!("stream {i}: a vectored write of slices of {} and {} bytes reported 0 bytes written (a write loop ends with WriteZero)", a.len(), b.len()),
                                )
                                .fact("acceptor", format!("{:?}", cfg.kind)),
                            );
                        }
                        if a.is_empty() && !b.is_empty() {
                            ctx.bump("probe.vectored_write_empty_first_slice");
                        }
                        if n > a.len() + b.len() {
                            return Some(Violation::new("payload-corrupted", format!("stream {i}: a vectored write of {} bytes reported {n} bytes written", a.len() + b.len())));
                        }
                        if n < a.len() + b.len() {
                            ctx.bump("probe.server_vectored_write_partial");
                            if n > a.len() {
                                ctx.bump("probe.server_vectored_write_cut_in_second_slice");
                            }
                        }
                        c.s_written += n;
                        ctx.bump("probe.server_vectored_write");
                        ev!(ctx, "server #{i} writes (vectored)");
                    }
                    Poll::Ready(Err(_)) => {
                        c.stream = None;
                    }
                    Poll::Pending => {
                        c.srv_blocked = true;
                        ctx.bump("probe.server_write_backpressure");
                        ev!(ctx, "server #{i} vectored write pending");
                    }
                }
            }
            Action::SrvShutdown(i) => {
                let c = &mut conns[i];
                let (_f, w) = c.io_task.fresh();
                let mut cx = Context::from_waker(&w);
                if !c.s_shutting && c.srv_blocked {
                    ctx.bump("probe.shutdown_under_backpressure");
                }
                c.s_shutting = true;
                match c.stream.as_mut().unwrap().as_mut().poll_shutdown(&mut cx) {
                    Poll::Ready(Ok(())) => {
                        c.s_shut = true;
                        c.s_flushed = true;
                        ctx.bump("probe.server_shutdown_completed");
                        ev!(ctx, "server #{i} shut down after {} bytes", c.s_written);
                    }
                    Poll::Ready(Err(_)) => c.stream = None,
                    Poll::Pending => {
                        c.srv_blocked = true;
                        ev!(ctx, "server #{i} shutdown pending");
                    }
                }
            }
            Action::SrvFlush(i) => {
                let c = &mut conns[i];
                let (_f, w) = c.io_task.fresh();
                let mut cx = Context::from_waker(&w);
                match c.stream.as_mut().unwrap().as_mut().poll_flush(&mut cx) {
                    Poll::Ready(Ok(())) => {
                        c.s_flushed = true;
                        ev!(ctx, "server #{i} flushed");
                    }
                    Poll::Ready(Err(_)) => c.stream = None,
                    Poll::Pending => {
                        c.srv_blocked = true;
                        ctx.bump("probe.server_flush_pending");
                        ev!(ctx, "server #{i} flush pending");
                    }
                }
            }
            Action::SrvRead(i) => {
                let c = &mut conns[i];
                let (_f, w) = c.io_task.fresh();
                let mut cx = Context::from_waker(&w);
                let mut buf = vec![0u8; if cfg.small_reads { 512 } else { 8192 }];
                let mut rb = ReadBuf::new(&mut buf);
                // every other read goes into a buffer that already holds something (read_exact
                // style): what was there stays, what is read is appended
                c.s_reads += 1;
                let pre: &[u8] = if c.s_reads % 2 == 0 { b"<kept>" } else { b"" };
                rb.put_slice(pre);
                match c.stream.as_mut().unwrap().as_mut().poll_read(&mut cx, &mut rb) {
                    Poll::Ready(Ok(())) => {
                        if !rb.filled().starts_with(pre) {
                            return Some(Violation::new("payload-corrupted", format!("stream {i}: a read into a partly filled buffer overwrote the {} bytes it already held", pre.len())).fact("acceptor", format!("{:?}", cfg.kind)));
                        }
                        if !pre.is_empty() {
                            ctx.bump("probe.read_into_partly_filled_buffer");
                        }
                        let got = rb.filled()[pre.len()..].to_vec();
                        if got.is_empty() {
                            // end of stream: nothing more will come out without new input
                            c.read_pending = true;
                            if c.fin_sent && !c.cut && c.s_read.len() < c.c_written {
                                return Some(
                                    Violation::new(
                                        "payload-truncated",
                                        format!("stream {i}: the client wrote {} bytes and then closed its sending direction; the server's read reports end of stream after {} bytes", c.c_written, c.s_read.len()),
                                    )
                                    .fact("acceptor", format!("{:?}", cfg.kind)),
                                );
                            }
                        }
                        c.s_read.extend_from_slice(&got);
                        ev!(ctx, "server #{i} reads");
                    }
                    Poll::Ready(Err(_)) => c.stream = None,
                    Poll::Pending => {
                        c.read_pending = true;
                        // everything the client wrote has been delivered and taken off the
                        // transport: whatever is still unread sits decrypted inside the TLS
                        // stream, and a read must hand it out instead of waiting for the peer
                        // (a client that is still handshaking keeps what it wrote as plaintext)
                        if c.outbox.is_empty() && !c.client.is_handshaking() && !c.client.wants_write() && c.c2s.borrow().buf.is_empty() && !c.cut && c.s_read.len() < c.c_written {
                            return Some(
                                Violation::new(
                                    "payload-withheld",
                                    format!("stream {i}: the client wrote {} bytes, all delivered and consumed by the server's TLS stream, but a read returns Pending after {} bytes", c.c_written, c.s_read.len()),
                                )
                                .fact("acceptor", format!("{:?}", cfg.kind)),
                            );
                        }
                        ctx.bump("probe.server_read_pending");
                    }
                }
            }
            Action::CliWrite(i, chunk) => {
                let c = &mut conns[i];
                let end = (c.c_written + chunk as usize).min(c.p_c2s.len());
                let data = c.p_c2s[c.c_written..end].to_vec();
                if c.client.writer().write_all(&data).is_ok() {
                    c.c_written = end;
                }
                c.pump_client_out();
                ev!(ctx, "client #{i} writes application data");
            }
            Action::C(_) => {}
        }
        // after time moved: every future whose deadline has passed has been woken by its timer
        if let Action::Advance(_) = a {
            let now = now_ms(start);
            for (i, c) in conns.iter().enumerate() {
                if c.fut.is_some() && c.parked && !c.task.woken() && now > c.t_call + cfg.timeout_ms + 1 {
                    return Some(
                        Violation::new(
                            "handshake-unbounded",
                            format!("accept call {i} made at {}ms with a {}ms handshake timeout is still pending and un-woken at {now}ms", c.t_call, cfg.timeout_ms),
                        )
                        .fact("acceptor", format!("{:?}", cfg.kind)),
                    );
                }
            }
        }
        ctx.state(hash_u64s(&[alive!() as u64, conns.len() as u64, ready_parked.iter().filter(|p| **p).count() as u64, streams_ok as u64]));
    }
    // payload integrity on every established stream that was not cut
    for (i, c) in conns.iter().enumerate() {
        if c.outcome.map(|o| o.0) == Some(Outcome::Stream) && !c.cut && c.stream.is_some() {
            if c.s_read != c.p_c2s[..c.s_read.len().min(c.p_c2s.len())] || c.s_read.len() > c.p_c2s.len() {
                return Some(Violation::new("payload-corrupted", format!("stream {i}: bytes read by the server differ from what the client wrote")));
            }
            if c.c_read != c.p_s2c[..c.c_read.len().min(c.p_s2c.len())] || c.c_read.len() > c.p_s2c.len() {
                return Some(Violation::new("payload-corrupted", format!("stream {i}: bytes read by the client differ from what the server wrote")));
            }
            if c.s_shut && c.c_read.len() < c.s_written {
                return Some(
                    Violation::new(
                        "payload-missing",
                        format!("stream {i}: the server wrote {} bytes and completed the shutdown of the stream but only {} reached the client (transport capacity {})", c.s_written, c.c_read.len(), cfg.pipe_cap),
                    )
                    .fact("acceptor", format!("{:?}", cfg.kind))
                    .fact("after", "shutdown"),
                );
            }
            if c.s_flushed && !c.s_shut && c.c_read.len() < c.p_s2c.len() {
                return Some(
                    Violation::new(
                        "payload-missing",
                        format!("stream {i}: the server wrote and flushed {} bytes but only {} reached the client (transport capacity {})", c.p_s2c.len(), c.c_read.len(), cfg.pipe_cap),
                    )
                    .fact("acceptor", format!("{:?}", cfg.kind)),
                );
            }
            if c.c_written == c.p_c2s.len() && c.s_read.len() < c.p_c2s.len() && !c.s_flushed {
                return Some(Violation::new("payload-missing", format!("stream {i}: the client wrote {} bytes but the server read only {}", c.p_c2s.len(), c.s_read.len())));
            }
            if c.c_read.len() == c.p_s2c.len() && !c.p_s2c.is_empty() {
                ctx.bump("probe.payload_roundtrip");
            }
        }
    }
    ctx.sim_ms = now_ms(start);
    ctx.nontrivial = conns.iter().any(|c| c.outcome.is_some()) && conns.len() >= 1;
    None
}

pub fn futures_now<T>(f: impl Future<Output = T>) -> T {
    let mut f = Box::pin(f);
    let w = std::task::Waker::noop();
    let mut cx = Context::from_waker(&w);
    match f.as_mut().poll(&mut cx) {
        Poll::Ready(t) => t,
        Poll::Pending => panic!("future expected to be ready"),
    }
}

pub struct TlsSim;

impl Engine for TlsSim {
    type Config = Config;
    type Action = Action;
    const NAME: &'static str = "tlssim";

    fn properties() -> &'static [&'static str] {
        &["C18", "C19"]
    }
    fn level(_: &str) -> &'static str {
        "fault_enumeration"
    }
    fn isolate() -> bool {
        true
    }
    fn budget(prop: &str, tier: Tier) -> (u64, u64) {
        match (prop, tier) {
            ("C18", Tier::Quick) => (60_000, 60),
            ("C18", Tier::Thorough) => (3_000_000, 600),
            (_, Tier::Quick) => (60_000, 60),
            (_, Tier::Thorough) => (3_000_000, 600),
        }
    }
    fn process_init() {
        let _ = pki();
    }
    fn gen_config(prop: &str, tier: Tier, rng: &mut Rng) -> Config {
        let big = rng.chance(1, if tier == Tier::Thorough { 4 } else { 8 });
        // bulk mode: more than the TLS send buffer (64 KiB) in one direction towards a client
        // that reads only when the server is blocked
        let bulk = big && rng.chance(1, 2);
        Config {
            conn: if prop == "C19" { Some(connsim::gen(rng)) } else { None },
            kind: if rng.chance(1, 2) { Kind::Rustls } else { Kind::Openssl },
            tls12: rng.chance(1, 3),
            limit: rng.range(1, 3) as usize,
            timeout_ms: *rng.pick(&[102, 252, 1002, 3002, 5002]),
            use_clone: rng.chance(1, 2),
            services: rng.range(1, 2) as usize,
            pipe_cap: *rng.pick(&[512, 1024, 4096, 16384, 24_000, 40_000, 1 << 20]),
            payload_seed: rng.next_u64(),
            payload_len: if bulk { *rng.pick(&[70_000usize, 90_000, 130_000]) } else if big { if rng.chance(1, 3) { 65_536 } else { rng.range(8_000, 65_536) as usize } } else { rng.range(0, 3000) as usize },
            max_actions: rng.range(8, 90) as usize,
            max_calls: rng.range(1, 5) as usize,
            w_deliver: *rng.pick(&[2, 4, 8]),
            w_fault: *rng.pick(&[0, 0, 1, 2]),
            w_advance: *rng.pick(&[1, 2, 4]),
            stall_client: bulk,
            mixed: rng.chance(1, 3),
            small_reads: rng.chance(1, 3),
            limit_changed_later: rng.chance(1, 4),
        }
    }
    fn max_actions(_: &str, cfg: &Config) -> usize {
        let _ = cfg.stall_client;
        cfg.max_actions
    }
    fn run(prop: &str, cfg: &Config, ch: &mut Chooser<Action>, ctx: &mut RunCtx) -> Option<Violation> {
        // every run gets a fresh OS thread: the per-thread connection counter of actix-tls is
        // initialised once per thread from the global limit
        actix_tls::accept::max_concurrent_tls_connect(cfg.limit);
        let prop = prop.to_string();
        std::thread::scope(|s| {
            s.spawn(|| {
                let rt = tokio::runtime::Builder::new_current_thread().enable_all().start_paused(true).build().expect("runtime");
                let local = tokio::task::LocalSet::new();
                if prop == "C18" {
                    rt.block_on(local.run_until(run_accept(cfg, ch, ctx)))
                } else {
                    rt.block_on(local.run_until(connsim::run(cfg.conn.as_ref().expect("connector config"), ch, ctx)))
                }
            })
            .join()
            .unwrap_or_else(|p| {
                let msg = p.downcast_ref::<&str>().map(|s| s.to_string()).or_else(|| p.downcast_ref::<String>().cloned()).unwrap_or_default();
                Some(Violation::new("panic", msg))
            })
        })
    }
    fn shrink_config(prop: &str, cfg: &Config) -> Vec<Config> {
        let mut v = Vec::new();
        if prop == "C18" {
            if cfg.services > 1 {
                let mut c = cfg.clone();
                c.services = 1;
                v.push(c);
            }
            if cfg.payload_len > 0 {
                let mut c = cfg.clone();
                c.payload_len /= 2;
                v.push(c);
            }
            if cfg.use_clone {
                let mut c = cfg.clone();
                c.use_clone = false;
                v.push(c);
            }
        }
        v
    }
    fn describe(prop: &str) -> Describe {
        if prop == "C19" {
            return connsim::describe();
        }
        Describe {
            rule: "up to 5 concurrent accept calls on 1..2 acceptor services (rustls 0.23 or OpenSSL, built from the configured acceptor or a clone of it) sharing the per-thread limit 1..3; the client is a hand-driven rustls ClientConnection (TLS 1.2 or 1.3) whose flights are delivered whole / in halves / byte-wise or never (stall), or replaced by garbage, disconnect or reset; virtual clock advanced by 1, 50, timeout/2, timeout ms; timeouts 0.1..5 s; payloads 0..64 KiB each way over transports of capacity 512 B..1 MiB; non-trivial = at least one accept call resolved; distinct = distinct event-trace hash".into(),
            real: vec!["actix_tls::accept::{rustls_0_23, openssl}::{Acceptor, AcceptorService, AcceptFut, TlsStream}", "actix_utils::counter::Counter (thread-local handshake limit)", "tokio-rustls / rustls 0.23 (aws-lc-rs)", "tokio-openssl / OpenSSL 3", "tokio timers (paused clock)"],
            stub: vec!["wire: in-memory duplex with bounded capacity", "TLS peer: hand-driven rustls::ClientConnection", "executor: strict-wake manual polling"],
            assumptions: vec!["handshake bytes contain fresh randomness: replay is exact at the level of actions and outcomes, not bytes", "rustls 0.20-0.22 and native-tls acceptors are not exercised (same AcceptFut shape)"],
        }
    }
    fn required_probes(prop: &str, _tier: Tier) -> Vec<&'static str> {
        if prop == "C18" {
            vec!["probe.timeout_outcome", "probe.tls_error_outcome", "probe.stream_outcome", "probe.not_ready_at_limit", "probe.release_at_limit", "probe.payload_roundtrip", "probe.server_write_backpressure", "probe.server_vectored_write", "probe.server_vectored_write_partial", "probe.server_vectored_write_cut_in_second_slice", "probe.two_backends_on_one_thread", "probe.server_shutdown_completed", "probe.shutdown_under_backpressure", "probe.vectored_write_empty_first_slice", "probe.read_into_partly_filled_buffer", "probe.server_read_pending", "probe.client_fin_after_payload", "probe.limit_changed_between_services"]
        } else {
            connsim::required_probes()
        }
    }
}

fn main() {
    simcore::main_for::<TlsSim>()
}
