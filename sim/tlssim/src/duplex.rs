//! In-memory duplex transport owned by the simulator: the server half implements
//! `AsyncRead + AsyncWrite + ActixStream` and is handed to the real acceptor / connector services;
//! the client half is manipulated synchronously by the simulator.

use std::{
    cell::RefCell,
    collections::VecDeque,
    io,
    pin::Pin,
    rc::Rc,
    task::{Context, Poll, Waker},
};

use actix_rt::net::{ActixStream, Ready};
use tokio::io::{AsyncRead, AsyncWrite, ReadBuf};

#[derive(Default)]
pub struct Pipe {
    pub buf: VecDeque<u8>,
    pub closed: bool,
    pub reset: bool,
    pub reader: Option<Waker>,
    pub writer: Option<Waker>,
    pub capacity: usize,
    pub total_in: u64,
    pub total_out: u64,
    pub read_pendings: u64,
    pub write_pendings: u64,
}

impl Pipe {
    pub fn new(capacity: usize) -> Rc<RefCell<Pipe>> {
        Rc::new(RefCell::new(Pipe { capacity, ..Default::default() }))
    }

    pub fn push(&mut self, data: &[u8]) {
        self.buf.extend(data.iter().copied());
        self.total_in += data.len() as u64;
        if let Some(w) = self.reader.take() {
            w.wake();
        }
    }

    pub fn drain(&mut self, max: usize) -> Vec<u8> {
        let n = max.min(self.buf.len());
        let v: Vec<u8> = self.buf.drain(..n).collect();
        self.total_out += n as u64;
        if n > 0 {
            if let Some(w) = self.writer.take() {
                w.wake();
            }
        }
        v
    }

    pub fn close(&mut self) {
        self.closed = true;
        if let Some(w) = self.reader.take() {
            w.wake();
        }
    }

    pub fn reset(&mut self) {
        self.reset = true;
        if let Some(w) = self.reader.take() {
            w.wake();
        }
        if let Some(w) = self.writer.take() {
            w.wake();
        }
    }
}

/// The half handed to the code under test: reads from `rx`, writes to `tx`.
pub struct Half {
    pub rx: Rc<RefCell<Pipe>>,
    pub tx: Rc<RefCell<Pipe>>,
    pub shutdown: bool,
}

impl AsyncRead for Half {
    fn poll_read(self: Pin<&mut Self>, cx: &mut Context<'_>, buf: &mut ReadBuf<'_>) -> Poll<io::Result<()>> {
        let mut p = self.rx.borrow_mut();
        if p.reset {
            return Poll::Ready(Err(io::Error::new(io::ErrorKind::ConnectionReset, "peer reset")));
        }
        if p.buf.is_empty() {
            if p.closed {
                return Poll::Ready(Ok(()));
            }
            p.read_pendings += 1;
            p.reader = Some(cx.waker().clone());
            return Poll::Pending;
        }
        let n = buf.remaining().min(p.buf.len());
        let v: Vec<u8> = p.buf.drain(..n).collect();
        p.total_out += n as u64;
        buf.put_slice(&v);
        if let Some(w) = p.writer.take() {
            w.wake();
        }
        Poll::Ready(Ok(()))
    }
}

impl AsyncWrite for Half {
    fn poll_write(self: Pin<&mut Self>, cx: &mut Context<'_>, data: &[u8]) -> Poll<io::Result<usize>> {
        let mut p = self.tx.borrow_mut();
        if p.reset {
            return Poll::Ready(Err(io::Error::new(io::ErrorKind::BrokenPipe, "peer reset")));
        }
        let room = p.capacity.saturating_sub(p.buf.len());
        if room == 0 {
            p.write_pendings += 1;
            p.writer = Some(cx.waker().clone());
            return Poll::Pending;
        }
        let n = room.min(data.len());
        p.push(&data[..n]);
        Poll::Ready(Ok(n))
    }

    fn poll_flush(self: Pin<&mut Self>, _: &mut Context<'_>) -> Poll<io::Result<()>> {
        Poll::Ready(Ok(()))
    }

    fn poll_shutdown(mut self: Pin<&mut Self>, _: &mut Context<'_>) -> Poll<io::Result<()>> {
        self.shutdown = true;
        self.tx.borrow_mut().close();
        Poll::Ready(Ok(()))
    }
}

impl ActixStream for Half {
    fn poll_read_ready(&self, cx: &mut Context<'_>) -> Poll<io::Result<Ready>> {
        let mut p = self.rx.borrow_mut();
        if !p.buf.is_empty() || p.closed || p.reset {
            // like a socket whose peer has sent FIN: readable (data may still be queued) and read-closed
            Poll::Ready(Ok(if p.closed { Ready::READABLE | Ready::READ_CLOSED } else { Ready::READABLE }))
        } else {
            p.reader = Some(cx.waker().clone());
            Poll::Pending
        }
    }

    fn poll_write_ready(&self, cx: &mut Context<'_>) -> Poll<io::Result<Ready>> {
        let mut p = self.tx.borrow_mut();
        if p.buf.len() < p.capacity || p.reset {
            Poll::Ready(Ok(Ready::WRITABLE))
        } else {
            p.writer = Some(cx.waker().clone());
            Poll::Pending
        }
    }
}

impl Drop for Half {
    fn drop(&mut self) {
        // dropping the transport closes the connection towards the peer
        self.tx.borrow_mut().close();
    }
}

/// How many bytes of `buf` (a sequence of TLS records) to deliver for a delivery mode, chosen so
/// that the peer's progress depends only on *which records are complete*, never on byte lengths
/// (signatures and DER encodings vary in length from handshake to handshake):
/// mode 0 = everything, 1 = up to the end of the first record, 2 = the first record minus its last
/// byte (an incomplete record: no progress). `tail` carries the number of bytes still missing from
/// a record that was delivered incompletely, so that parsing stays aligned on record boundaries.
pub fn delivery_len(buf: &[u8], mode: u8, tail: &mut usize) -> usize {
    if buf.is_empty() {
        return 0;
    }
    if mode == 0 {
        *tail = 0;
        return buf.len();
    }
    if *tail > 0 {
        // complete the record that was cut
        let n = (*tail).min(buf.len());
        *tail -= n;
        return n;
    }
    let first = if buf.len() >= 5 {
        (5 + u16::from_be_bytes([buf[3], buf[4]]) as usize).min(buf.len())
    } else {
        buf.len()
    };
    if mode == 1 || first < 2 {
        first
    } else {
        *tail = 1;
        first - 1
    }
}
