//! connsim — C19: resolution precedence and ordered fallback of the real `Connector` / `Resolver` /
//! `TcpConnector` services over kernel loopback (live listeners vs reserved closed ports, scripted
//! resolvers), and hostname-verified TLS of the rustls 0.23 / OpenSSL connector services over the
//! in-memory duplex against a hand-driven rustls server with right / wrong / untrusted certificates.

use std::{
    cell::RefCell,
    future::Future,
    io::{Read, Write},
    net::{IpAddr, SocketAddr, TcpListener},
    pin::Pin,
    rc::Rc,
    sync::Arc,
    task::{Context, Poll},
};

use actix_service::{Service, ServiceFactory};
use actix_tls::connect::{
    openssl as conn_openssl, rustls_0_23 as conn_rustls, ConnectError, ConnectInfo, Connection, Connector, Resolve, Resolver, tcp::TcpConnector,
};
use serde::{Deserialize, Serialize};
use simcore::{ev, runner::hash_u64s, wake::TaskWake, Chooser, Describe, Rng, RunCtx, Violation};
use tokio::io::{AsyncRead, AsyncWrite, ReadBuf};

use crate::{duplex::{Half, Pipe}, pki, server_config, Action, GOOD_NAME};

#[derive(Serialize, Deserialize, Clone, Debug, PartialEq)]
pub enum CAction {
    PollFut,
    ServerSend(u8),
    ServerRecv,
    CliWrite,
    CliFlush,
    CliRead,
    SrvWriteApp,
}

#[derive(Serialize, Deserialize, Clone, Debug, PartialEq)]
pub enum HostKind {
    /// non-IP name, goes through the resolver
    Name,
    /// "name:port"
    NamePort,
    /// "name:notaport"
    NameBadPort,
    /// "127.0.0.1"
    Ip,
    /// "127.0.0.1:port"
    IpPort,
    /// "localhost" (default resolver, no network needed)
    Localhost,
}

#[derive(Serialize, Deserialize, Clone, Debug, PartialEq)]
pub enum Preset {
    None,
    One,
    Multi,
    WithAddr,
}

#[derive(Serialize, Deserialize, Clone, Debug, PartialEq)]
pub enum ResolverKind {
    Default,
    CustomOk,
    CustomEmpty,
    CustomErr,
}

#[derive(Serialize, Deserialize, Clone, Debug, PartialEq)]
pub enum Entry {
    /// service under test
    Connector,
    TcpOnly,
    ResolverOnly,
}

#[derive(Serialize, Deserialize, Clone, Debug, PartialEq)]
pub enum Cert {
    Good,
    OtherName,
    RogueCa,
    IpOnly,
    /// subject CN = the good name, SAN = another name only
    CnOnly,
}

#[derive(Serialize, Deserialize, Clone, Debug, PartialEq)]
pub enum TlsHost {
    Good,
    GoodWithPort,
    Other,
    Invalid,
    Ip,
    /// the good name with white space around it: not a valid name, never "the good name"
    Padded,
}

#[derive(Serialize, Deserialize, Clone, Debug)]
pub struct CConfig {
    pub tls: bool,
    // tcp part
    pub live: Vec<bool>,
    pub v6: Vec<bool>,
    pub host: HostKind,
    pub preset: Preset,
    pub resolver: ResolverKind,
    pub resolver_pendings: u8,
    pub entry: Entry,
    pub set_port: bool,
    /// `set_port` names a port other than the one in the host string
    #[serde(default)]
    pub set_port_alt: bool,
    /// per slot: rank that decides the numeric order of the slots' ports within an address family
    #[serde(default)]
    pub port_rank: Vec<u8>,
    pub local_addr: bool,
    /// obtain the services through their factories' `new_service` instead of `.service()`
    #[serde(default)]
    pub via_factory: bool,
    // tls part
    pub openssl: bool,
    pub cert: Cert,
    pub tls_host: TlsHost,
    pub tls12: bool,
    /// the same connector service has completed (and cleanly shut down) a handshake for the good
    /// name against the same server before the request under test
    #[serde(default)]
    pub prior_session: bool,
    /// the TLS peer is the OpenSSL acceptor of actix-tls (resumes sessions whatever the name asked
    /// for) instead of the hand-driven rustls server; both sides are polled in lock-step
    #[serde(default)]
    pub openssl_peer: bool,
    pub pipe_cap: usize,
    pub payload_len: usize,
    pub payload_seed: u64,
    pub max_actions: usize,
}

pub fn gen(rng: &mut Rng) -> CConfig {
    let n = rng.range(0, 4) as usize;
    CConfig {
        tls: rng.chance(2, 5),
        live: (0..n).map(|_| rng.chance(1, 2)).collect(),
        v6: (0..n).map(|_| rng.chance(1, 4)).collect(),
        host: rng.pick(&[HostKind::Name, HostKind::Name, HostKind::NamePort, HostKind::NameBadPort, HostKind::Ip, HostKind::IpPort, HostKind::Localhost]).clone(),
        preset: rng.pick(&[Preset::None, Preset::None, Preset::One, Preset::Multi, Preset::WithAddr]).clone(),
        resolver: rng.pick(&[ResolverKind::CustomOk, ResolverKind::CustomOk, ResolverKind::CustomEmpty, ResolverKind::CustomErr, ResolverKind::Default]).clone(),
        resolver_pendings: rng.range(0, 2) as u8,
        entry: rng.pick(&[Entry::Connector, Entry::Connector, Entry::Connector, Entry::TcpOnly, Entry::ResolverOnly]).clone(),
        set_port: rng.chance(1, 2),
        set_port_alt: rng.chance(1, 2),
        port_rank: (0..n).map(|_| rng.below(200) as u8).collect(),
        local_addr: rng.chance(1, 5),
        via_factory: rng.chance(1, 3),
        openssl: rng.chance(1, 2),
        cert: rng.pick(&[Cert::Good, Cert::Good, Cert::OtherName, Cert::RogueCa, Cert::IpOnly, Cert::CnOnly]).clone(),
        tls_host: rng.pick(&[TlsHost::Good, TlsHost::Good, TlsHost::GoodWithPort, TlsHost::Other, TlsHost::Invalid, TlsHost::Ip, TlsHost::Padded]).clone(),
        tls12: rng.chance(1, 3),
        prior_session: rng.chance(1, 3),
        openssl_peer: rng.chance(1, 4),
        pipe_cap: *rng.pick(&[512, 4096, 1 << 20]),
        payload_len: rng.range(0, 9000) as usize,
        payload_seed: rng.next_u64(),
        max_actions: rng.range(4, 60) as usize,
    }
}

pub async fn run(cfg: &CConfig, ch: &mut Chooser<Action>, ctx: &mut RunCtx) -> Option<Violation> {
    if cfg.tls {
        run_tls(cfg, ch, ctx).await
    } else {
        run_tcp(cfg, ctx).await
    }
}

// ------------------------------------------------------------------------------------------------
// resolution + TCP

struct ScriptResolver {
    answer: Result<Vec<SocketAddr>, ()>,
    pendings: u8,
    log: Rc<RefCell<Vec<(String, u16)>>>,
}

impl Resolve for ScriptResolver {
    fn lookup<'a>(&'a self, host: &'a str, port: u16) -> futures_box::LocalBoxFuture<'a, Result<Vec<SocketAddr>, Box<dyn std::error::Error>>> {
        self.log.borrow_mut().push((host.to_string(), port));
        let mut left = self.pendings;
        let ans = self.answer.clone();
        Box::pin(std::future::poll_fn(move |cx| {
            if left > 0 {
                left -= 1;
                cx.waker().wake_by_ref();
                return Poll::Pending;
            }
            Poll::Ready(match &ans {
                Ok(v) => Ok(v.clone()),
                Err(()) => Err(Box::new(std::io::Error::new(std::io::ErrorKind::Other, "scripted resolver failure")) as Box<dyn std::error::Error>),
            })
        }))
    }
}

mod futures_box {
    pub type LocalBoxFuture<'a, T> = std::pin::Pin<Box<dyn std::future::Future<Output = T> + 'a>>;
}

enum Target {
    Live(TcpListener, SocketAddr),
    Closed(#[allow(dead_code)] socket2::Socket, SocketAddr),
}

impl Target {
    fn addr(&self) -> SocketAddr {
        match self {
            Target::Live(_, a) | Target::Closed(_, a) => *a,
        }
    }
}

fn make_target(live: bool, v6: bool) -> Target {
    let ip: IpAddr = if v6 { "::1".parse().unwrap() } else { "127.0.0.1".parse().unwrap() };
    if live {
        let l = TcpListener::bind(SocketAddr::new(ip, 0)).expect("bind");
        l.set_nonblocking(true).unwrap();
        let a = l.local_addr().unwrap();
        Target::Live(l, a)
    } else {
        // bound but not listening: the port is reserved and connect() is refused deterministically
        let s = socket2::Socket::new(if v6 { socket2::Domain::IPV6 } else { socket2::Domain::IPV4 }, socket2::Type::STREAM, None).unwrap();
        s.bind(&SocketAddr::new(ip, 0).into()).unwrap();
        let a = s.local_addr().unwrap().as_socket().unwrap();
        Target::Closed(s, a)
    }
}

/// All slots at once: the sockets are bound first, then handed to the slots so that the numeric
/// order of the ports within an address family follows `rank` (kernel port numbers are not under
/// the seed's control; their order relation is, this way).
fn make_targets(live: &[bool], v6: &[bool], rank: &[u8]) -> Vec<Target> {
    let n = live.len();
    let mut out: Vec<Option<Target>> = (0..n).map(|_| None).collect();
    for fam6 in [false, true] {
        let ip: IpAddr = if fam6 { "::1".parse().unwrap() } else { "127.0.0.1".parse().unwrap() };
        let mut slots: Vec<usize> = (0..n).filter(|i| v6[*i] == fam6).collect();
        slots.sort_by_key(|i| (rank.get(*i).copied().unwrap_or(*i as u8), *i));
        let mut socks: Vec<(u16, socket2::Socket)> = slots
            .iter()
            .map(|_| {
                let s = socket2::Socket::new(if fam6 { socket2::Domain::IPV6 } else { socket2::Domain::IPV4 }, socket2::Type::STREAM, None).unwrap();
                s.bind(&SocketAddr::new(ip, 0).into()).unwrap();
                (s.local_addr().unwrap().as_socket().unwrap().port(), s)
            })
            .collect();
        socks.sort_by_key(|(p, _)| *p);
        for (slot, (port, s)) in slots.into_iter().zip(socks) {
            let a = SocketAddr::new(ip, port);
            out[slot] = Some(if live[slot] {
                s.listen(128).expect("listen");
                let l: TcpListener = s.into();
                l.set_nonblocking(true).unwrap();
                Target::Live(l, a)
            } else {
                Target::Closed(s, a)
            });
        }
    }
    out.into_iter().map(|t| t.unwrap()).collect()
}

#[derive(Debug, PartialEq, Clone)]
enum Expect {
    Connected(SocketAddr),
    NoRecords,
    ResolverErr,
    Unresolved,
    IoRefused,
    /// resolver-only entry point: the resolved address list
    Resolved(Vec<SocketAddr>),
}

async fn run_tcp(cfg: &CConfig, ctx: &mut RunCtx) -> Option<Violation> {
    let targets: Vec<Target> = make_targets(&cfg.live, &cfg.v6, &cfg.port_rank);
    let addrs: Vec<SocketAddr> = targets.iter().map(|t| t.addr()).collect();
    // one extra live listener on 127.0.0.1 for IP-literal / localhost hosts: they dial host:port
    let ip_target = make_target(cfg.live.first().copied().unwrap_or(true), false);
    let ip_port = ip_target.addr().port();
    let req_port = ip_port;
    // a second 127.0.0.1 listener for a `set_port` that disagrees with the port in the host string
    let alt_target = make_target(true, false);
    let set_port_val = if cfg.set_port_alt { alt_target.addr().port() } else { req_port };

    let host: String = match cfg.host {
        HostKind::Name => "svc.sim".into(),
        HostKind::NamePort => format!("svc.sim:{req_port}"),
        HostKind::NameBadPort => "svc.sim:http".into(),
        HostKind::Ip => "127.0.0.1".into(),
        HostKind::IpPort => format!("127.0.0.1:{req_port}"),
        HostKind::Localhost => "localhost".into(),
    };
    let host_has_port = matches!(cfg.host, HostKind::NamePort | HostKind::IpPort);
    let mut req = match cfg.preset {
        Preset::WithAddr if !addrs.is_empty() => ConnectInfo::with_addr(host.clone(), addrs[0]),
        _ => ConnectInfo::new(host.clone()),
    };
    if cfg.set_port {
        req = req.set_port(set_port_val);
    }
    let preset_addrs: Vec<SocketAddr> = match cfg.preset {
        Preset::None => vec![],
        Preset::One => addrs.iter().take(1).copied().collect(),
        Preset::Multi => addrs.clone(),
        Preset::WithAddr => addrs.iter().take(1).copied().collect(),
    };
    match cfg.preset {
        Preset::One => req = req.set_addr(addrs.first().copied()),
        Preset::Multi => req = req.set_addrs(addrs.clone()),
        _ => {}
    }
    if cfg.local_addr {
        // any 127/8 address is local on Linux; not the default source address, so that a connection
        // made without the bind is told apart
        req = req.set_local_addr(IpAddr::from([127, 0, 0, 3]));
    }
    // the port carried by the request's host wins, `set_port` is the fallback
    let eff_port: u16 = if host_has_port { req_port } else if cfg.set_port { set_port_val } else { 0 };

    let log = Rc::new(RefCell::new(Vec::new()));
    let answer = match cfg.resolver {
        ResolverKind::CustomOk => Ok(addrs.clone()),
        ResolverKind::CustomEmpty => Ok(vec![]),
        _ => Err(()),
    };
    let resolver = match cfg.resolver {
        ResolverKind::Default => Resolver::default(),
        _ => Resolver::custom(ScriptResolver { answer, pendings: cfg.resolver_pendings, log: log.clone() }),
    };

    // ---- reference model -------------------------------------------------------------------
    let is_ip = matches!(cfg.host, HostKind::Ip | HostKind::IpPort);
    let mut expect_resolver_calls: Vec<(String, u16)> = Vec::new();
    let dial_list: Result<Vec<SocketAddr>, Expect> = if !preset_addrs.is_empty() {
        Ok(preset_addrs.clone())
    } else if cfg.entry == Entry::TcpOnly {
        Err(Expect::Unresolved)
    } else if is_ip {
        Ok(vec![SocketAddr::new("127.0.0.1".parse().unwrap(), eff_port)])
    } else if cfg.resolver == ResolverKind::Default {
        // only names that resolve locally are used with the default resolver
        let name = host.split(':').next().unwrap().to_string();
        match std::net::ToSocketAddrs::to_socket_addrs(&format!("{name}:{eff_port}")) {
            Ok(it) => {
                let v: Vec<SocketAddr> = it.collect();
                if v.is_empty() {
                    Err(Expect::NoRecords)
                } else {
                    Ok(v)
                }
            }
            Err(_) => Err(Expect::ResolverErr),
        }
    } else {
        expect_resolver_calls.push((host.split(':').next().unwrap().to_string(), eff_port));
        match cfg.resolver {
            ResolverKind::CustomOk if !addrs.is_empty() => Ok(addrs.clone()),
            ResolverKind::CustomOk | ResolverKind::CustomEmpty => Err(Expect::NoRecords),
            _ => Err(Expect::ResolverErr),
        }
    };
    let live_of = |a: &SocketAddr| -> bool {
        // a socket bound to an IPv4 local address cannot reach an IPv6 peer
        if cfg.local_addr && a.is_ipv6() {
            return false;
        }
        targets.iter().any(|t| matches!(t, Target::Live(_, x) if x == a)) || matches!(&ip_target, Target::Live(_, x) if x == a) || matches!(&alt_target, Target::Live(_, x) if x == a)
    };
    let expect: Expect = match (&dial_list, &cfg.entry) {
        (Err(e), _) => e.clone(),
        (Ok(list), Entry::ResolverOnly) => Expect::Resolved(list.clone()),
        (Ok(list), _) => match list.iter().find(|a| live_of(a)) {
            Some(a) => Expect::Connected(*a),
            None => Expect::IoRefused,
        },
    };
    ev!(ctx, "tcp case host={:?} preset={:?} resolver={:?} entry={:?} live={:?} -> expect {}", cfg.host, cfg.preset, cfg.resolver, cfg.entry, cfg.live, expect_name(&expect));

    // ---- the real services -----------------------------------------------------------------
    enum Got {
        Conn(SocketAddr),
        Err(ConnectError),
        Resolved(Vec<SocketAddr>),
    }
    let got: Got = match cfg.entry {
        Entry::Connector => {
            let fac = Connector::new(resolver);
            let svc = if cfg.via_factory {
                ctx.bump("probe.service_from_factory");
                <Connector as ServiceFactory<ConnectInfo<String>>>::new_service(&fac, ()).await.expect("factory")
            } else {
                fac.service()
            };
            match svc.call(req).await {
                Ok(c) => {
                    let (io, _) = c.into_parts();
                    let peer = io.peer_addr().unwrap();
                    let _ = socket2::SockRef::from(&io).set_linger(Some(std::time::Duration::ZERO));
                    if cfg.local_addr && io.local_addr().unwrap().ip() != IpAddr::from([127, 0, 0, 3]) {
                        return Some(Violation::new("local-addr-ignored", format!("the stream is bound to {} instead of the requested local address 127.0.0.3", io.local_addr().unwrap().ip())));
                    }
                    if cfg.local_addr {
                        ctx.bump("probe.local_bind_checked");
                    }
                    drop(io);
                    Got::Conn(peer)
                }
                Err(e) => Got::Err(e),
            }
        }
        Entry::TcpOnly => {
            let fac = TcpConnector::default();
            let svc = if cfg.via_factory {
                <TcpConnector as ServiceFactory<ConnectInfo<String>>>::new_service(&fac, ()).await.expect("factory")
            } else {
                fac.service()
            };
            match svc.call(req).await {
                Ok(c) => {
                    let (io, _) = c.into_parts();
                    let peer = io.peer_addr().unwrap();
                    let _ = socket2::SockRef::from(&io).set_linger(Some(std::time::Duration::ZERO));
                    drop(io);
                    Got::Conn(peer)
                }
                Err(e) => Got::Err(e),
            }
        }
        Entry::ResolverOnly => {
            let svc = if cfg.via_factory {
                <Resolver as ServiceFactory<ConnectInfo<String>>>::new_service(&resolver, ()).await.expect("factory")
            } else {
                resolver.service()
            };
            match svc.call(req).await {
                Ok(info) => Got::Resolved(info.addrs().collect()),
                Err(e) => Got::Err(e),
            }
        }
    };

    // accept counters of the loopback listeners
    let mut accepted: Vec<(SocketAddr, usize)> = Vec::new();
    for t in targets.iter().chain([&ip_target, &alt_target]) {
        if let Target::Live(l, a) = t {
            let mut n = 0;
            // the kernel has queued the connection before connect() returned
            while let Ok((s, _)) = l.accept() {
                let _ = socket2::SockRef::from(&s).set_linger(Some(std::time::Duration::ZERO));
                n += 1;
            }
            accepted.push((*a, n));
        }
    }

    let got_name = match &got {
        Got::Conn(a) => format!("Connected({})", ord(a, &addrs, &ip_target)),
        Got::Err(e) => format!("Err({})", err_name(e)),
        Got::Resolved(v) => format!("Resolved({} addrs)", v.len()),
    };
    ev!(ctx, "result {got_name}; resolver calls {}", log.borrow().len());
    let fail = |class: &str, detail: String| Some(Violation::new(class, detail).fact("entry", format!("{:?}", cfg.entry)));

    // resolver must not be consulted for pre-resolved requests or IP literals
    let calls = log.borrow().clone();
    if cfg.resolver != ResolverKind::Default && cfg.entry != Entry::TcpOnly {
        if calls.len() != expect_resolver_calls.len() {
            return fail(
                if calls.len() > expect_resolver_calls.len() { "re-resolved" } else { "resolver-skipped" },
                format!("the resolver was called {} time(s) ({calls:?}); the precedence rules require {} call(s) for host {host:?} with {} pre-set address(es)", calls.len(), expect_resolver_calls.len(), preset_addrs.len()),
            );
        }
        if let (Some(c), Some(e)) = (calls.first(), expect_resolver_calls.first()) {
            if c != e {
                return fail("resolver-args", format!("the resolver was asked for {c:?}, expected {e:?}"));
            }
            ctx.bump("probe.resolver_consulted");
        }
    }
    match (&expect, &got) {
        (Expect::Connected(want), Got::Conn(peer)) => {
            if peer != want {
                return fail("wrong-address", format!("connected to address #{} but the first live address in dial order is #{}", ord(peer, &addrs, &ip_target), ord(want, &addrs, &ip_target)));
            }
            for (a, n) in &accepted {
                let should = if a == want { 1 } else { 0 };
                if *n != should {
                    return fail("extra-dial", format!("listener #{} saw {n} connection(s), expected {should}", ord(a, &addrs, &ip_target)));
                }
            }
            ctx.bump("probe.connected");
            if host_has_port && cfg.set_port && cfg.set_port_alt && is_ip && preset_addrs.is_empty() {
                ctx.bump("probe.host_port_beats_set_port");
            }
            if dial_list.as_ref().map_or(false, |l| l.windows(2).any(|w| w[0] > w[1]) && l.iter().filter(|a| live_of(a)).count() >= 2) {
                ctx.bump("probe.unsorted_list_with_two_live");
            }
            if dial_list.as_ref().map_or(false, |l| l.first() != Some(want)) {
                ctx.bump("probe.fallback_to_later_address");
            }
        }
        (Expect::NoRecords, Got::Err(ConnectError::NoRecords)) => ctx.bump("probe.no_records"),
        (Expect::ResolverErr, Got::Err(ConnectError::Resolver(_))) => ctx.bump("probe.resolver_error"),
        (Expect::Unresolved, Got::Err(ConnectError::Unresolved)) => ctx.bump("probe.unresolved"),
        (Expect::IoRefused, Got::Err(ConnectError::Io(e))) => {
            ctx.bump("probe.all_refused");
            // "failing with the last I/O error": a closed port refuses; an IPv6 address cannot be
            // dialled from a socket bound to the IPv4 local address (some other error)
            let last_refuses = dial_list.as_ref().ok().and_then(|l| l.last()).map_or(true, |a| !(cfg.local_addr && a.is_ipv6()));
            let refused = e.kind() == std::io::ErrorKind::ConnectionRefused;
            if refused != last_refuses {
                return fail(
                    "wrong-io-error",
                    format!("all addresses fail; the last one in dial order {} a plain refusal but the error returned is {:?}", if last_refuses { "is" } else { "is not" }, e.kind()),
                );
            }
            if let Ok(l) = &dial_list {
                let kinds: Vec<bool> = l.iter().map(|a| !(cfg.local_addr && a.is_ipv6())).collect();
                if kinds.iter().any(|k| *k) && kinds.iter().any(|k| !*k) {
                    ctx.bump("probe.all_fail_with_different_errors");
                }
            }
            for (a, n) in &accepted {
                if *n != 0 {
                    return fail("extra-dial", format!("listener #{} saw {n} connection(s) although the request must fail", ord(a, &addrs, &ip_target)));
                }
            }
        }
        (Expect::Resolved(want), Got::Resolved(v)) => {
            if want != v {
                return fail("resolved-addresses-wrong", format!("resolver service returned {} address(es) in a different list/order than expected ({})", v.len(), want.len()));
            }
            ctx.bump("probe.resolved_only");
        }
        _ => {
            return fail("wrong-outcome", format!("expected {} but got {got_name} (host {host:?}, preset {:?}, resolver {:?})", expect_name(&expect), cfg.preset, cfg.resolver));
        }
    }
    ctx.state(hash_u64s(&[cfg.live.len() as u64, cfg.live.iter().filter(|l| **l).count() as u64, cfg.host.clone() as u64, cfg.preset.clone() as u64, cfg.resolver.clone() as u64, cfg.entry.clone() as u64]));
    ctx.nontrivial = true;
    None
}

fn ord(a: &SocketAddr, addrs: &[SocketAddr], ip_target: &Target) -> String {
    if let Some(i) = addrs.iter().position(|x| x == a) {
        i.to_string()
    } else if ip_target.addr() == *a {
        "ip-literal".into()
    } else {
        "other".into()
    }
}

fn err_name(e: &ConnectError) -> &'static str {
    match e {
        ConnectError::Resolver(_) => "Resolver",
        ConnectError::NoRecords => "NoRecords",
        ConnectError::InvalidInput => "InvalidInput",
        ConnectError::Unresolved => "Unresolved",
        ConnectError::Io(_) => "Io",
    }
}

fn expect_name(e: &Expect) -> String {
    match e {
        Expect::Connected(_) => "Connected(first live address)".into(),
        Expect::Resolved(v) => format!("Resolved({} addrs)", v.len()),
        o => format!("{o:?}"),
    }
}

// ------------------------------------------------------------------------------------------------
// TLS connectors over the in-memory duplex

trait Rw: AsyncRead + AsyncWrite {}
impl<T: AsyncRead + AsyncWrite> Rw for T {}

type ConnFut = Pin<Box<dyn Future<Output = Result<Pin<Box<dyn Rw>>, std::io::Error>>>>;

struct MapConn<T> {
    f: Pin<Box<dyn Future<Output = std::io::Result<T>>>>,
    conv: fn(T) -> Pin<Box<dyn Rw>>,
}
impl<T> Future for MapConn<T> {
    type Output = std::io::Result<Pin<Box<dyn Rw>>>;
    fn poll(mut self: Pin<&mut Self>, cx: &mut Context<'_>) -> Poll<Self::Output> {
        let conv = self.conv;
        self.f.as_mut().poll(cx).map(|r| r.map(conv))
    }
}

/// One complete, fault-free connection through `call` for the good name: handshake, a few bytes each
/// way, orderly shutdown from both sides. Deterministic (no choices). Returns whether it worked.
fn prior_session(call: &dyn Fn(Connection<String, Half>) -> ConnFut, scfg: Arc<rustls::ServerConfig>) -> bool {
    let c2s = Pipe::new(1 << 20);
    let s2c = Pipe::new(1 << 20);
    let half = Half { rx: s2c.clone(), tx: c2s.clone(), shutdown: false };
    let mut server = rustls::ServerConnection::new(scfg).unwrap();
    let mut fut = call(Connection::new(GOOD_NAME.to_string(), half));
    let w = std::task::Waker::noop();
    let mut cx = Context::from_waker(&w);
    let mut stream: Option<Pin<Box<dyn Rw>>> = None;
    let mut phase = 0; // 0 handshake, 1 client wrote, 2 client shut down
    let mut buf = [0u8; 1024];
    for _ in 0..400 {
        if stream.is_none() {
            if let Poll::Ready(r) = fut.as_mut().poll(&mut cx) {
                match r {
                    Ok(s) => stream = Some(s),
                    Err(_) => return false,
                }
            }
        }
        // client -> server
        let data = c2s.borrow_mut().drain(usize::MAX);
        let mut rd = &data[..];
        while !rd.is_empty() {
            if server.read_tls(&mut rd).is_err() || server.process_new_packets().is_err() {
                return false;
            }
            while let Ok(k) = server.reader().read(&mut buf) {
                if k == 0 {
                    break;
                }
            }
        }
        // server -> client
        let mut out = Vec::new();
        while server.wants_write() {
            if server.write_tls(&mut out).is_err() {
                return false;
            }
        }
        let moved = !data.is_empty() || !out.is_empty();
        if !out.is_empty() {
            s2c.borrow_mut().push(&out);
        }
        if let Some(st) = stream.as_mut() {
            // let the client side consume whatever the server sent (session tickets, close_notify)
            let mut rb_store = [0u8; 1024];
            let mut rb = ReadBuf::new(&mut rb_store);
            let _ = st.as_mut().poll_read(&mut cx, &mut rb);
            match phase {
                0 => {
                    if let Poll::Ready(Ok(_)) = st.as_mut().poll_write(&mut cx, b"hello") {
                        let _ = st.as_mut().poll_flush(&mut cx);
                        phase = 1;
                    }
                }
                1 if !moved => {
                    if let Poll::Ready(_) = st.as_mut().poll_shutdown(&mut cx) {
                        server.send_close_notify();
                        phase = 2;
                    }
                }
                2 if !moved => return true,
                _ => {}
            }
        }
    }
    false
}

/// Lock-step variant: connector under test against the real OpenSSL acceptor of actix-tls over the
/// in-memory duplex, one or two connections through the same connector service. No choices are
/// drawn; what varies is the configuration (certificate, requested name, TLS version, history).
fn run_tls_openssl_peer(cfg: &CConfig, ctx: &mut RunCtx) -> Option<Violation> {
    use actix_tls::accept::openssl as acc;
    use openssl::{pkey::PKey, ssl::{SslAcceptor, SslConnector, SslMethod}, x509::X509};
    let pk = pki();
    let (cert, key) = match cfg.cert {
        Cert::Good => (&pk.leaf_der, &pk.leaf_key_der),
        Cert::OtherName => (&pk.other_der, &pk.other_key_der),
        Cert::RogueCa => (&pk.rogue_der, &pk.rogue_key_der),
        Cert::IpOnly => (&pk.ip_der, &pk.ip_key_der),
        Cert::CnOnly => (&pk.cn_der, &pk.cn_key_der),
    };
    let mut sb = SslAcceptor::mozilla_intermediate_v5(SslMethod::tls()).unwrap();
    sb.set_private_key(&PKey::private_key_from_der(key).unwrap()).unwrap();
    sb.set_certificate(&X509::from_der(cert).unwrap()).unwrap();
    let _ = sb.set_session_id_context(b"connsim");
    let acceptor = crate::futures_now(<acc::Acceptor as ServiceFactory<Half>>::new_service(&acc::Acceptor::new(sb.build()), ())).expect("acceptor");
    let mut cb = SslConnector::builder(SslMethod::tls()).unwrap();
    cb.cert_store_mut().add_cert(X509::from_der(&pk.ca_der).unwrap()).unwrap();
    if cfg.tls12 {
        let _ = cb.set_max_proto_version(Some(openssl::ssl::SslVersion::TLS1_2));
    }
    let rustls_svc = conn_rustls::TlsConnector::service(crate::client_config(cfg.tls12));
    let openssl_svc = conn_openssl::TlsConnector::service(cb.build());
    let connect = |host: &str, half: Half| -> ConnFut {
        let conn = Connection::new(host.to_string(), half);
        if cfg.openssl {
            let f = <conn_openssl::TlsConnectorService as Service<Connection<String, Half>>>::call(&openssl_svc, conn);
            Box::pin(MapConn { f: Box::pin(f), conv: |c| { let (io, _) = c.into_parts(); Box::pin(io) as Pin<Box<dyn Rw>> } })
        } else {
            let f = <conn_rustls::TlsConnectorService as Service<Connection<String, Half>>>::call(&rustls_svc, conn);
            Box::pin(MapConn { f: Box::pin(f), conv: |c| { let (io, _) = c.into_parts(); Box::pin(io) as Pin<Box<dyn Rw>> } })
        }
    };
    // one connection, both ends polled in turn; returns whether the connector's handshake succeeded
    let one = |host: &str| -> Option<bool> {
        let c2s = Pipe::new(1 << 20);
        let s2c = Pipe::new(1 << 20);
        let mut cfut = connect(host, Half { rx: s2c.clone(), tx: c2s.clone(), shutdown: false });
        let mut sfut = Box::pin(<acc::AcceptorService as Service<Half>>::call(&acceptor, Half { rx: c2s.clone(), tx: s2c.clone(), shutdown: false }));
        let w = std::task::Waker::noop();
        let mut cx = Context::from_waker(&w);
        let mut cres: Option<Result<Pin<Box<dyn Rw>>, ()>> = None;
        let mut sres: Option<Result<Pin<Box<acc::TlsStream<Half>>>, ()>> = None;
        for _ in 0..200 {
            if cres.is_none() {
                if let Poll::Ready(r) = cfut.as_mut().poll(&mut cx) {
                    cres = Some(r.map_err(|_| ()));
                    if matches!(cres, Some(Err(()))) {
                        // the connector gave up: its half is gone, the acceptor sees the end
                        c2s.borrow_mut().close();
                    }
                }
            }
            if sres.is_none() {
                if let Poll::Ready(r) = sfut.as_mut().poll(&mut cx) {
                    sres = Some(r.map(Box::pin).map_err(|_| ()));
                }
            }
            if cres.is_some() && sres.is_some() {
                break;
            }
        }
        let ok = matches!(cres, Some(Ok(_)));
        // orderly end from both sides (a session is only resumable after a clean shutdown)
        if let (Some(Ok(mut c)), Some(Ok(mut s))) = (cres, sres) {
            let mut store = [0u8; 256];
            for _ in 0..8 {
                let _ = c.as_mut().poll_shutdown(&mut cx);
                let _ = s.as_mut().poll_shutdown(&mut cx);
                let mut rb = ReadBuf::new(&mut store);
                let _ = c.as_mut().poll_read(&mut cx, &mut rb);
                let mut rb = ReadBuf::new(&mut store);
                let _ = s.as_mut().poll_read(&mut cx, &mut rb);
            }
        }
        cres_is_some_guard(ok)
    };
    fn cres_is_some_guard(ok: bool) -> Option<bool> {
        Some(ok)
    }
    let host: String = match cfg.tls_host {
        TlsHost::Good => GOOD_NAME.into(),
        TlsHost::GoodWithPort => format!("{GOOD_NAME}:8443"),
        TlsHost::Other => "other.test".into(),
        TlsHost::Invalid => "not a valid name!".into(),
        TlsHost::Ip => "127.0.0.1".into(),
        TlsHost::Padded => format!(" {GOOD_NAME}\t"),
    };
    let valid = matches!(
        (&cfg.cert, &cfg.tls_host),
        (Cert::Good, TlsHost::Good | TlsHost::GoodWithPort) | (Cert::OtherName | Cert::CnOnly, TlsHost::Other) | (Cert::IpOnly, TlsHost::Ip)
    );
    if cfg.prior_session && cfg.cert == Cert::Good {
        if one(GOOD_NAME) != Some(true) {
            return Some(Violation::new("valid-cert-rejected", format!("the preliminary handshake for {GOOD_NAME} against a valid certificate failed")));
        }
        ctx.bump("probe.prior_session_against_openssl_peer");
    }
    ev!(ctx, "tls case (OpenSSL acceptor as peer) connector={} cert={:?} host={:?} prior={} -> expect {}", if cfg.openssl { "openssl" } else { "rustls" }, cfg.cert, cfg.tls_host, cfg.prior_session, if valid { "ok" } else { "error" });
    // the rustls connector refuses syntactically invalid names before any I/O (panics are caught by the runner)
    let got = one(&host)?;
    ctx.state(hash_u64s(&[cfg.cert.clone() as u64, cfg.tls_host.clone() as u64, cfg.openssl as u64, cfg.prior_session as u64, 77]));
    ctx.nontrivial = true;
    match (valid, got) {
        (true, true) => {
            ctx.bump("probe.tls_connected");
            None
        }
        (false, false) => {
            ctx.bump("probe.tls_rejected");
            if cfg.cert == Cert::CnOnly && matches!(cfg.tls_host, TlsHost::Good | TlsHost::GoodWithPort) {
                ctx.bump("probe.cn_matches_but_san_does_not");
            }
            None
        }
        (false, true) => Some(
            Violation::new(
                "verified-wrong-name",
                format!(
                    "the {} connector accepted a certificate ({:?}) that is not valid for the requested host {host:?}{}",
                    if cfg.openssl { "OpenSSL" } else { "rustls" },
                    cfg.cert,
                    if cfg.prior_session { " after an earlier session for the good name on the same service" } else { "" }
                ),
            )
            .fact("connector", if cfg.openssl { "openssl" } else { "rustls" }),
        ),
        (true, false) => Some(Violation::new("valid-cert-rejected", format!("the connector rejected a certificate that is valid for {host:?}")).fact("connector", if cfg.openssl { "openssl" } else { "rustls" })),
    }
}

async fn run_tls(cfg: &CConfig, ch: &mut Chooser<Action>, ctx: &mut RunCtx) -> Option<Violation> {
    if cfg.openssl_peer {
        return run_tls_openssl_peer(cfg, ctx);
    }
    let pk = pki();
    let (cert, key) = match cfg.cert {
        Cert::Good => (&pk.leaf_der, &pk.leaf_key_der),
        Cert::OtherName => (&pk.other_der, &pk.other_key_der),
        Cert::RogueCa => (&pk.rogue_der, &pk.rogue_key_der),
        Cert::IpOnly => (&pk.ip_der, &pk.ip_key_der),
        Cert::CnOnly => (&pk.cn_der, &pk.cn_key_der),
    };
    let scfg = Arc::new(server_config(cert, key));
    let mut server = rustls::ServerConnection::new(scfg.clone()).unwrap();
    server.set_buffer_limit(None);
    let host: String = match cfg.tls_host {
        TlsHost::Good => GOOD_NAME.into(),
        TlsHost::GoodWithPort => format!("{GOOD_NAME}:8443"),
        TlsHost::Other => "other.test".into(),
        TlsHost::Invalid => "not a valid name!".into(),
        TlsHost::Ip => "127.0.0.1".into(),
        TlsHost::Padded => format!(" {GOOD_NAME}\t"),
    };
    // the certificate is valid for the request's hostname under the configured roots
    let valid = match (&cfg.cert, &cfg.tls_host) {
        (Cert::Good, TlsHost::Good | TlsHost::GoodWithPort) => true,
        (Cert::OtherName | Cert::CnOnly, TlsHost::Other) => true,
        (Cert::IpOnly, TlsHost::Ip) => true,
        _ => false,
    };
    // unbounded during the handshake, the configured capacity applies to the payload phase
    let c2s = Pipe::new(1 << 20);
    let s2c = Pipe::new(1 << 20);
    // the connector's half reads what the server sent (s2c) and writes towards the server (c2s)
    let half = Half { rx: s2c.clone(), tx: c2s.clone(), shutdown: false };
    let conn = Connection::new(host.clone(), half);
    let call: Box<dyn Fn(Connection<String, Half>) -> ConnFut> = if cfg.openssl {
        use openssl::{ssl::{SslConnector, SslMethod}, x509::X509};
        let mut b = SslConnector::builder(SslMethod::tls()).unwrap();
        b.cert_store_mut().add_cert(X509::from_der(&pk.ca_der).unwrap()).unwrap();
        if cfg.tls12 {
            // TLS 1.2 sessions can be resumed from a cache without a new certificate exchange
            let _ = b.set_max_proto_version(Some(openssl::ssl::SslVersion::TLS1_2));
        }
        let svc = if cfg.via_factory {
            let fac = conn_openssl::TlsConnector::new(b.build());
            crate::futures_now(<conn_openssl::TlsConnector as ServiceFactory<Connection<String, Half>>>::new_service(&fac, ())).expect("factory")
        } else {
            conn_openssl::TlsConnector::service(b.build())
        };
        Box::new(move |conn| {
            let f = <conn_openssl::TlsConnectorService as Service<Connection<String, Half>>>::call(&svc, conn);
            Box::pin(MapConn { f: Box::pin(f), conv: |c| { let (io, _) = c.into_parts(); Box::pin(io) as Pin<Box<dyn Rw>> } }) as ConnFut
        })
    } else {
        let svc = if cfg.via_factory {
            let fac = conn_rustls::TlsConnector::new(crate::client_config(cfg.tls12));
            crate::futures_now(<conn_rustls::TlsConnector as ServiceFactory<Connection<String, Half>>>::new_service(&fac, ())).expect("factory")
        } else {
            conn_rustls::TlsConnector::service(crate::client_config(cfg.tls12))
        };
        Box::new(move |conn| {
            let f = <conn_rustls::TlsConnectorService as Service<Connection<String, Half>>>::call(&svc, conn);
            Box::pin(MapConn { f: Box::pin(f), conv: |c| { let (io, _) = c.into_parts(); Box::pin(io) as Pin<Box<dyn Rw>> } }) as ConnFut
        })
    };
    if cfg.prior_session && cfg.cert == Cert::Good {
        if prior_session(&call, scfg.clone()) {
            ctx.bump("probe.prior_session_on_same_service");
            ev!(ctx, "an earlier session for {GOOD_NAME} was completed and shut down on this service");
        } else {
            return Some(Violation::new("valid-cert-rejected", format!("the preliminary handshake for {GOOD_NAME} against a valid certificate failed")));
        }
    }
    let mut fut: Option<ConnFut> = Some(call(conn));
    ev!(ctx, "tls case connector={} cert={:?} host={:?} -> expect {}", if cfg.openssl { "openssl" } else { "rustls" }, cfg.cert, cfg.tls_host, if valid { "ok" } else { "error" });

    let mut task = TaskWake::new();
    let mut parked = false;
    let mut outbox: Vec<u8> = Vec::new(); // server -> client bytes not yet delivered
    let mut out_tail = 0usize;
    let mut stream: Option<Pin<Box<dyn Rw>>> = None;
    let mut outcome: Option<bool> = None;
    let mut io_task = TaskWake::new();
    let p_up = crate_payload(cfg.payload_seed, cfg.payload_len, 1);
    let p_down = crate_payload(cfg.payload_seed, cfg.payload_len, 2);
    let (mut up_written, mut up_flushed, mut down_written) = (0usize, false, 0usize);
    let mut srv_read: Vec<u8> = Vec::new();
    let mut cli_read: Vec<u8> = Vec::new();
    let mut draining = false;
    let mut steps = 0u32;

    loop {
        steps += 1;
        if steps > 100_000 {
            return Some(Violation::new("drain-livelock", "connector run does not terminate"));
        }
        let mut en: Vec<(Action, u32)> = Vec::new();
        if fut.is_some() && (!parked || task.woken()) {
            en.push((Action::C(CAction::PollFut), 5));
        }
        let live = fut.is_some() || stream.is_some();
        if !outbox.is_empty() && live {
            for f in 0..3u8 {
                en.push((Action::C(CAction::ServerSend(f)), 3));
            }
        }
        if !c2s.borrow().buf.is_empty() && live {
            en.push((Action::C(CAction::ServerRecv), 5));
        }
        if stream.is_some() {
            if up_written < p_up.len() {
                en.push((Action::C(CAction::CliWrite), 3));
            } else if !up_flushed {
                en.push((Action::C(CAction::CliFlush), 3));
            }
            if down_written < p_down.len() {
                en.push((Action::C(CAction::SrvWriteApp), 3));
            }
            if cli_read.len() < p_down.len() && !s2c.borrow().buf.is_empty() {
                en.push((Action::C(CAction::CliRead), 3));
            }
        }
        if en.is_empty() {
            break;
        }
        let a = if !draining {
            match ch.choose(&en) {
                Some(a) => a,
                None => {
                    draining = true;
                    continue;
                }
            }
        } else {
            en[0].0.clone()
        };
        let Action::C(ca) = a else { continue };
        match ca {
            CAction::PollFut => {
                let (_f, w) = task.fresh();
                let mut cx = Context::from_waker(&w);
                match fut.as_mut().unwrap().as_mut().poll(&mut cx) {
                    Poll::Pending => parked = true,
                    Poll::Ready(r) => {
                        fut = None;
                        outcome = Some(r.is_ok());
                        ev!(ctx, "connector resolved ok={}", r.is_ok());
                        match r {
                            Ok(s) => {
                                if !valid {
                                    return Some(
                                        Violation::new(
                                            "verified-wrong-name",
                                            format!("the {} connector accepted a certificate ({:?}) that is not valid for the requested host {host:?}", if cfg.openssl { "OpenSSL" } else { "rustls" }, cfg.cert),
                                        )
                                        .fact("connector", if cfg.openssl { "openssl" } else { "rustls" }),
                                    );
                                }
                                ctx.bump("probe.tls_connected");
                                stream = Some(s);
                                c2s.borrow_mut().capacity = cfg.pipe_cap;
                            }
                            Err(e) => {
                                if valid {
                                    return Some(Violation::new("valid-cert-rejected", format!("the connector rejected a certificate that is valid for {host:?}: {e}")));
                                }
                                ctx.bump("probe.tls_rejected");
                                if cfg.tls_host == TlsHost::Invalid && !cfg.openssl && c2s.borrow().total_in != 0 {
                                    return Some(Violation::new("invalid-name-touched-transport", "an invalid server name was rejected only after bytes had been written to the transport"));
                                }
                            }
                        }
                    }
                }
            }
            CAction::ServerSend(frac) => {
                let n = crate::duplex::delivery_len(&outbox, frac, &mut out_tail);
                let d: Vec<u8> = outbox.drain(..n).collect();
                s2c.borrow_mut().push(&d);
                ev!(ctx, "server delivers (mode {frac})");
            }
            CAction::ServerRecv => {
                let data = c2s.borrow_mut().drain(usize::MAX);
                let mut rd = &data[..];
                let mut buf = [0u8; 4096];
                while !rd.is_empty() {
                    if server.read_tls(&mut rd).is_err() || server.process_new_packets().is_err() {
                        break;
                    }
                    loop {
                        match server.reader().read(&mut buf) {
                            Ok(0) => break,
                            Ok(k) => srv_read.extend_from_slice(&buf[..k]),
                            Err(_) => break,
                        }
                    }
                }
                while server.wants_write() {
                    if server.write_tls(&mut outbox).is_err() {
                        break;
                    }
                }
                ev!(ctx, "server receives");
            }
            CAction::CliWrite => {
                let (_f, w) = io_task.fresh();
                let mut cx = Context::from_waker(&w);
                let end = (up_written + 3000).min(p_up.len());
                match stream.as_mut().unwrap().as_mut().poll_write(&mut cx, &p_up[up_written..end]) {
                    Poll::Ready(Ok(n)) => up_written += n,
                    Poll::Ready(Err(_)) => stream = None,
                    Poll::Pending => ctx.bump("probe.client_write_backpressure"),
                }
            }
            CAction::CliFlush => {
                let (_f, w) = io_task.fresh();
                let mut cx = Context::from_waker(&w);
                match stream.as_mut().unwrap().as_mut().poll_flush(&mut cx) {
                    Poll::Ready(Ok(())) => up_flushed = true,
                    Poll::Ready(Err(_)) => stream = None,
                    Poll::Pending => {}
                }
            }
            CAction::CliRead => {
                let (_f, w) = io_task.fresh();
                let mut cx = Context::from_waker(&w);
                let mut buf = vec![0u8; 4096];
                let mut rb = ReadBuf::new(&mut buf);
                match stream.as_mut().unwrap().as_mut().poll_read(&mut cx, &mut rb) {
                    Poll::Ready(Ok(())) => {
                        let got = rb.filled().to_vec();
                        cli_read.extend_from_slice(&got);
                    }
                    Poll::Ready(Err(_)) => stream = None,
                    Poll::Pending => {}
                }
            }
            CAction::SrvWriteApp => {
                let end = (down_written + 4000).min(p_down.len());
                if server.writer().write_all(&p_down[down_written..end]).is_ok() {
                    down_written = end;
                }
                while server.wants_write() {
                    if server.write_tls(&mut outbox).is_err() {
                        break;
                    }
                }
            }
        }
        ctx.state(hash_u64s(&[outcome.map_or(2, |o| o as u64), parked as u64, (up_written / 1024) as u64, (down_written / 1024) as u64]));
    }
    if fut.is_some() {
        return Some(Violation::new("stuck-handshake", "the connector future is pending and un-woken although nothing is left to deliver"));
    }
    if outcome == Some(true) && stream.is_some() {
        if srv_read != p_up[..srv_read.len().min(p_up.len())] || cli_read != p_down[..cli_read.len().min(p_down.len())] {
            return Some(Violation::new("payload-corrupted", "bytes carried over the connector's TLS stream differ from what was written"));
        }
        if up_flushed && srv_read.len() < p_up.len() {
            return Some(Violation::new("payload-missing", format!("the client wrote and flushed {} bytes, the server read {}", p_up.len(), srv_read.len())));
        }
        if cli_read.len() == p_down.len() && srv_read.len() == p_up.len() {
            ctx.bump("probe.tls_payload_roundtrip");
        }
    }
    ctx.nontrivial = outcome.is_some();
    None
}

fn crate_payload(seed: u64, len: usize, salt: u64) -> Vec<u8> {
    let mut r = Rng::new(seed ^ salt.wrapping_mul(0x5851_F42D));
    (0..len).map(|_| r.next_u64() as u8).collect()
}

pub fn describe() -> Describe {
    Describe {
        rule: "TCP part: address lists of length 0..4 whose entries are independently a live loopback listener or a reserved closed port (IPv4 and IPv6), host strings with/without port, IP literals, non-numeric port text, pre-set One/Multi addresses or with_addr, set_port (equal to or different from the port in the host string: the host's port wins), the numeric order of the slots' ports follows a seeded rank (so that the dial order of a list is never accidentally its sorted order), optional local bind address, default resolver (localhost) or scripted resolver returning list / empty / error after 0..2 Pending polls, entered through Connector, TcpConnector alone or Resolver alone, each obtained by `.service()` or through its ServiceFactory (also the TLS connectors); when all addresses fail the error is that of the last one in dial order; outcome, dialled address, accept counters of every listener and the resolver call log are compared with a precedence model. TLS part: rustls 0.23 and OpenSSL connector services (optionally after an earlier, cleanly closed session for the good name on the same service and server: session caches must not carry a verification over to another name) over the in-memory duplex against a hand-driven rustls server (in a quarter of the TLS runs against the OpenSSL acceptor of actix-tls, both ends polled in lock-step: that peer resumes sessions whatever the name asked for) holding a certificate that covers / does not cover the requested host, is issued by an untrusted CA, lists only an IP, or carries the requested name in its subject CN but not in its SAN, for host strings incl. host:port, another name, an invalid name and an IP literal; seeded delivery chunking; payload round trip after success. non-trivial = every run; distinct = distinct event-trace hash".into(),
        real: vec!["actix_tls::connect::{Connector, ConnectorService, Resolver, ResolverService, TcpConnector, TcpConnectorService, ConnectInfo, Connection, Host}", "actix_tls::connect::{rustls_0_23, openssl}::TlsConnectorService", "kernel loopback TCP, tokio I/O driver", "rustls 0.23 / OpenSSL certificate verification"],
        stub: vec!["DNS: scripted Resolve implementation (default resolver only for localhost)", "TLS server: hand-driven rustls::ServerConnection", "wire for the TLS part: in-memory duplex"],
        assumptions: vec!["connect timing (slow SYN, half-open) cannot be simulated on kernel loopback and is not part of C19", "rustls 0.20-0.22 and native-tls connectors are not exercised"],
    }
}

pub fn required_probes() -> Vec<&'static str> {
    vec!["probe.connected", "probe.fallback_to_later_address", "probe.no_records", "probe.resolver_error", "probe.unresolved", "probe.all_refused", "probe.resolver_consulted", "probe.tls_connected", "probe.tls_rejected", "probe.tls_payload_roundtrip", "probe.host_port_beats_set_port", "probe.unsorted_list_with_two_live", "probe.service_from_factory", "probe.all_fail_with_different_errors", "probe.prior_session_on_same_service", "probe.prior_session_against_openssl_peer", "probe.cn_matches_but_san_does_not", "probe.local_bind_checked"]
}
