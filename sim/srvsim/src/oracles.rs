//! Per-property workloads and oracles for `srvsim` (DESIGN.md §4.4).

use std::rc::Rc;

use actix_server::verif::{AvailabilityProbe, SteppedAccept};
use simcore::{ev, runner::hash_u64s, Chooser, Describe, Rng, RunCtx, Tier, Violation};

use crate::{
    accept_step, world::*, Action, Config, Lst, Sim, BACKOFF_ERRNOS, CONN_ERRNOS,
};

pub struct OracleState {
    pub prop: String,
    pub kills: u32,
    pub max_kills: u32,
    pub stop_issued: bool,
    pub signal_raised: bool,
    pub faults_injected: u32,
    pub ready_errs: u32,
    pub listener_unreachable: Vec<bool>,
    pub t_server_done: Option<u64>,
    // C06
    pub eff_graceful: Option<bool>,
    pub eff_signal: bool,
    pub t_stop: u64,
    pub advanced_since_stop: bool,
    pub slots_at_stop: Vec<usize>,
    // C07
    pub pending_restart: Vec<Option<usize>>, // per slot: listener whose service must be re-created
    pub svc_seen: Vec<usize>,                // per slot: number of svc_log entries already judged
    pub pause_seen: bool,
    /// the most recent pause()/resume() command issued through the handle (true = pause)
    pub last_pause_cmd: Option<bool>,
    pub backoff_seen: bool,
    /// C04: (dispatch-log length, finished count) at quiescent states in which every worker of the
    /// full rotation had spare capacity
    pub q_marks: Vec<(usize, usize)>,
    pub forced_seen_at: Option<u64>,
    pub late_stops: u32,
}

impl OracleState {
    pub fn new(cfg: &Config, prop: &str) -> Self {
        OracleState {
            prop: prop.to_string(),
            kills: 0,
            max_kills: cfg.max_kills,
            stop_issued: false,
            signal_raised: false,
            faults_injected: 0,
            ready_errs: 0,
            listener_unreachable: vec![false; cfg.listeners.len()],
            t_server_done: None,
            eff_graceful: None,
            eff_signal: false,
            t_stop: 0,
            advanced_since_stop: false,
            slots_at_stop: Vec::new(),
            pending_restart: Vec::new(),
            svc_seen: Vec::new(),
            pause_seen: false,
            last_pause_cmd: None,
            backoff_seen: false,
            q_marks: Vec::new(),
            forced_seen_at: None,
            late_stops: 0,
        }
    }

    pub fn record_state(&mut self, sh: &Rc<Shared>, h: &mut u64) {
        let h = *h;
        sh.ctx(|ctx| ctx.state(h));
    }
}

pub fn waiting_on(sh: &Shared, l: usize) -> usize {
    sh.conns
        .borrow()
        .iter()
        .filter(|c| c.listener == l && !c.accepted && c.stream.is_some() && !c.client_closed)
        .count()
}

fn kind_name(k: &Lst) -> &'static str {
    match k {
        Lst::Tcp => "tcp",
        Lst::Uds => "uds",
    }
}

// ------------------------------------------------------------------------------------------------
// configuration per property (swarm style)

pub fn gen_config(prop: &str, tier: Tier, rng: &mut Rng) -> Config {
    let thorough = tier == Tier::Thorough;
    let mut c = Config {
        workers: rng.range(1, 3) as usize,
        listeners: vec![Lst::Tcp],
        limit: rng.range(1, 3) as usize,
        shutdown_timeout_s: rng.range(1, 5),
        signals: false,
        max_actions: if thorough && rng.chance(1, 3) { rng.range(80, 300) } else { rng.range(15, 90) } as usize,
        max_conns: rng.range(3, 12) as usize,
        race_q: *rng.pick(&[0, 1, 2, 3]),
        pause: false,
        stop: false,
        accept_faults: false,
        kills: false,
        scripts: false,
        advance: false,
        factory_polls: 0,
        w_connect: *rng.pick(&[2, 4, 8]),
        w_release: *rng.pick(&[1, 3, 6]),
        w_settle: *rng.pick(&[1, 2, 5]),
        w_step: *rng.pick(&[2, 4, 8]),
        bitset_only: false,
        max_kills: 2,
        system_exit: false,
        script_errors: true,
        burst: 0,
        busy_after_call: false,
        factory_fails_on_restart: false,
        freeze: false,
        gated_restart: false,
        builder_order: rng.below(6) as u8,
    };
    let lst = |rng: &mut Rng, uds_w: u64| -> Vec<Lst> {
        let n = if rng.chance(1, 3) { 2 } else { 1 };
        (0..n).map(|_| if rng.chance(uds_w, 4) { Lst::Uds } else { Lst::Tcp }).collect()
    };
    match prop {
        "C01" => {
            c.listeners = lst(rng, 1);
            if rng.chance(1, 2) {
                c.listeners = vec![c.listeners[0].clone(), if rng.chance(1, 2) { Lst::Uds } else { Lst::Tcp }];
            }
            c.pause = rng.chance(1, 3);
            c.stop = rng.chance(1, 2);
            c.advance = c.stop;
            // the ledger also holds across worker faults (a restarted worker must be stopped and
            // must release what is queued at it like any other)
            c.kills = rng.chance(1, 4);
            // ... and across service back-pressure and service restarts (a connection taken off
            // the queue must reach a service even if that service is not ready at that moment)
            if rng.chance(1, 4) {
                c.scripts = true;
            }
        }
        "C02" | "C03" => {
            c.limit = rng.range(1, 4) as usize;
            c.max_conns = rng.range(3, 16) as usize;
            c.race_q = *rng.pick(&[0, 1, 2, 3, 3]);
            if rng.chance(1, 4) {
                c.listeners = vec![Lst::Tcp, Lst::Tcp];
            }
            // pause/resume are not faults: the limit and the wake-up rule hold across them too
            c.pause = rng.chance(1, 4);
            // service back-pressure (readiness flipping between Ok and Pending) must not disturb
            // the accounting either
            if rng.chance(1, 4) {
                c.scripts = true;
                // a failed readiness check restarts the service, not the worker: the limit and
                // the wake-up rule are indifferent to it
                c.script_errors = rng.chance(1, 2);
            }
            // C03 also speaks about the workers that are left after a fault (C02 stops judging then)
            if prop == "C03" {
                c.kills = rng.chance(1, 5);
            }
            // accept errors and their back-off are not worker faults: limit and wake-up rule hold
            if rng.chance(1, 6) {
                c.accept_faults = true;
                c.advance = true;
            }
        }
        "C04" => {
            c.workers = rng.range(1, 4) as usize;
            c.max_conns = rng.range(4, 16) as usize;
            c.pause = rng.chance(1, 4);
            // a restarted worker changes the order of the rotation list, not the rules
            c.kills = rng.chance(1, 5);
            // neither do service restarts (failing readiness) and accept-error back-offs
            if rng.chance(1, 5) {
                c.scripts = true;
                c.script_errors = rng.chance(1, 2);
            }
            if rng.chance(1, 6) {
                c.accept_faults = true;
                c.advance = true;
            }
            if rng.chance(1, 4) {
                c.bitset_only = true;
                c.max_actions = rng.range(20, 200) as usize;
            } else if thorough && rng.chance(1, 50) {
                c.workers = *rng.pick(&[127, 128, 129, 255, 257, 384, 512]);
                c.max_conns = 24;
                c.max_actions = 120;
            }
        }
        "C05" => {
            c.listeners = lst(rng, 2);
            c.pause = rng.chance(3, 4);
            c.accept_faults = rng.chance(3, 4);
            if !c.pause && !c.accept_faults {
                c.pause = true;
            }
            c.advance = true;
            c.race_q = 0;
            // stop is part of the command alphabet too (what follows it is C06's business)
            c.stop = rng.chance(1, 5);
        }
        "C06" => {
            c.workers = rng.range(1, 2) as usize;
            c.shutdown_timeout_s = match rng.below(14) {
                0 => u64::MAX,
                1 => 40,
                _ => rng.range(0, 5),
            };
            c.freeze = rng.chance(1, 4);
            // a worker may have been replaced before the stop: the replacement is stopped like any other
            if rng.chance(1, 6) {
                c.kills = true;
                c.max_kills = 1;
            }
            // a stop may arrive while a failed service is being re-created by a slow factory
            if rng.chance(1, 5) {
                c.scripts = true;
                c.factory_polls = rng.range(0, 2) as u32;
                c.gated_restart = rng.chance(1, 2);
            }
            c.stop = true;
            c.advance = true;
            c.signals = rng.chance(1, 3);
            c.system_exit = rng.chance(1, 4);
            c.pause = rng.chance(1, 4);
            c.max_conns = rng.range(1, 7) as usize;
            c.max_actions = rng.range(10, 70) as usize;
        }
        "C07" => {
            c.workers = rng.range(1, 2) as usize;
            let n = rng.range(1, 3) as usize;
            c.listeners = (0..n).map(|_| Lst::Tcp).collect();
            c.scripts = true;
            c.factory_polls = rng.range(0, 2) as u32;
            c.race_q = 0;
            c.busy_after_call = rng.chance(1, 4);
        }
        "C08" => {
            c.kills = true;
            // a worker also dies when a failed service cannot be re-created (two-step fault)
            if rng.chance(1, 5) {
                c.scripts = true;
                c.factory_fails_on_restart = true;
            }
            // a replacement may arrive while the accept loop is paused
            c.pause = rng.chance(1, 4);
            c.race_q = *rng.pick(&[0, 0, 1, 2]);
            c.max_conns = rng.range(4, 14) as usize;
        }
        _ => {}
    }
    // long accept queues / long worker queues (more than any batch size someone might pick): a
    // burst of 40 or 70 clients on one listener with a limit that does not get in the way
    if matches!(prop, "C01" | "C03" | "C05" | "C07") && rng.chance(1, 25) {
        c.burst = *rng.pick(&[40usize, 70]);
        c.limit = 100;
        c.max_conns = c.burst + 12;
        c.workers = c.workers.min(2);
    }
    c
}

pub fn shrink_config(_prop: &str, cfg: &Config) -> Vec<Config> {
    let mut v = Vec::new();
    if cfg.bitset_only {
        return v;
    }
    if cfg.workers > 1 {
        let mut c = cfg.clone();
        c.workers -= 1;
        v.push(c);
    }
    if cfg.listeners.len() > 1 {
        let mut c = cfg.clone();
        c.listeners.pop();
        v.push(c);
    }
    if cfg.limit > 1 {
        let mut c = cfg.clone();
        c.limit -= 1;
        v.push(c);
    }
    if cfg.factory_polls > 0 {
        let mut c = cfg.clone();
        c.factory_polls = 0;
        v.push(c);
    }
    if cfg.signals {
        let mut c = cfg.clone();
        c.signals = false;
        v.push(c);
    }
    v
}

// ------------------------------------------------------------------------------------------------
// fault-point sweeps (thorough tier, and a few in quick)

pub fn sweep_bases(prop: &str, tier: Tier) -> u64 {
    match (prop, tier) {
        ("C05" | "C06" | "C08", Tier::Quick) => 40,
        ("C05" | "C06" | "C08", Tier::Thorough) => 3000,
        _ => 0,
    }
}

pub fn gen_sweep_base(prop: &str, tier: Tier, rng: &mut Rng) -> Option<Config> {
    let mut c = gen_config(prop, tier, rng);
    c.max_actions = c.max_actions.min(40);
    match prop {
        // the base history contains no fault; the fault kinds stay enabled in the configuration so
        // that the inserted action is legal, but their weight in the base run is zero because the
        // base run is generated with the fault classes switched off and replayed with them on.
        "C05" => {
            c.accept_faults = false;
            c.pause = false;
        }
        "C06" => {
            c.stop = false;
        }
        "C08" => {
            // thorough: half of the base histories already contain one fault, so that the sweep
            // enumerates every position of a second, overlapping fault
            if tier == Tier::Thorough && rng.chance(1, 2) {
                c.kills = true;
                c.max_kills = 1;
            } else {
                c.kills = false;
            }
        }
        _ => return None,
    }
    Some(c)
}

pub fn sweep_faults(prop: &str, cfg: &Config) -> Vec<Action> {
    let mut v = Vec::new();
    match prop {
        "C05" => {
            for l in 0..cfg.listeners.len() {
                for e in BACKOFF_ERRNOS.iter().chain(CONN_ERRNOS.iter()) {
                    v.push(Action::InjectAcceptError(l, *e));
                }
            }
            v.push(Action::Pause);
            v.push(Action::Resume);
        }
        "C06" => {
            v.push(Action::Stop(true));
            v.push(Action::Stop(false));
            if cfg.signals {
                v.push(Action::Signal(libc::SIGTERM));
                v.push(Action::Signal(libc::SIGINT));
                v.push(Action::Signal(libc::SIGQUIT));
            }
        }
        "C08" => {
            for s in 0..cfg.workers {
                v.push(Action::KillWorker(s, false));
                v.push(Action::KillWorker(s, true));
            }
        }
        _ => {}
    }
    v
}

/// In sweep replays the inserted fault must be accepted by `enabled_actions`; the base
/// configuration has the class switched off, so the replay widens it again.
pub fn widen_for_sweep(prop: &str, cfg: &mut Config) {
    match prop {
        "C05" => {
            cfg.accept_faults = true;
            cfg.pause = true;
        }
        "C06" => cfg.stop = true,
        "C08" => {
            cfg.kills = true;
            cfg.max_kills = 2;
        }
        _ => {}
    }
}

// ------------------------------------------------------------------------------------------------
// online oracles

pub fn oracle_on_call(sh: &Rc<Shared>, c: usize, slot: usize, _inst: usize) {
    let prop = sh.prop.as_str();
    if prop == "C02" && !sh.worker_fault_seen.get() {
        check_limit(sh, slot, &format!("at the call of c{c}"));
    }
    if prop == "C07" {
        // the events immediately preceding this call on the worker must be one Ready(Ok) from each
        // of its services, with nothing else in between
        let n = sh.cfg.listeners.len();
        let log = sh.svc_log.borrow();
        let l = &log[slot];
        let mut seen: Vec<usize> = Vec::new();
        let mut ok = false;
        // last entry is this Call
        for e in l[..l.len().saturating_sub(1)].iter().rev() {
            match e {
                SvcEv::PollReady(i, Ready::Ok) => {
                    if !seen.contains(i) {
                        seen.push(*i);
                    }
                    if seen.len() == n {
                        ok = true;
                        break;
                    }
                }
                _ => break,
            }
        }
        if !ok {
            let tail: Vec<String> = l.iter().rev().take(8).rev().map(|e| format!("{e:?}")).collect();
            sh.violate(
                Violation::new(
                    "call-without-ready-round",
                    format!("service called on worker slot {slot} without every one of its {n} services having just reported ready; last events: {}", tail.join(", ")),
                )
                .fact("services", n),
            );
        }
        sh.ctx(|ctx| ctx.bump("probe.call_after_ready_round"));
    }
}

fn check_limit(sh: &Rc<Shared>, slot: usize, at: &str) {
    let n = sh.in_progress(slot);
    let l = sh.cfg.limit;
    if n > l {
        let idx = sh.workers.borrow()[slot].idx;
        sh.violate(
            Violation::new(
                "limit-exceeded",
                format!("worker w{idx} has {n} connections in progress {at}, max_concurrent_connections = {l}"),
            )
            .fact("limit", l),
        );
    }
    if n == l {
        sh.ctx(|ctx| ctx.bump("probe.worker_at_limit"));
    }
}

pub fn after_accept_step(sh: &Rc<Shared>, acc: &SteppedAccept, paused_before: bool, timeout_before: Option<std::time::Duration>) {
    let prop = sh.prop.as_str();
    let handles = acc.handle_idxs();
    // connections taken off a listener in this step must now be with a worker
    {
        let mut conns = sh.conns.borrow_mut();
        for (c, r) in conns.iter_mut().enumerate() {
            if r.accepted && r.owner.is_none() && !r.discarded {
                if prop == "C08" || prop == "C01" {
                    sh.violate(Violation::new(
                        "conn-dropped",
                        format!("connection c{c} was accepted but not handed to any worker although {} worker handle(s) remain", handles.len()),
                    ));
                }
            }
        }
    }
    if prop == "C05" && acc.alive() {
        // the loop wakes up no later than the earliest back-off deadline of any listener
        let rem = acc.socket_backoff_remaining();
        if let Some((tok, min_rem)) = rem.iter().min_by_key(|(_, d)| *d).copied() {
            let l = sh.token_of_listener.borrow().iter().position(|t| *t == tok).unwrap_or(0);
            let late = match acc.timeout() {
                None => true,
                Some(t) => t > min_rem + std::time::Duration::from_millis(1),
            };
            if rem.len() >= 2 {
                sh.ctx(|ctx| ctx.bump("probe.two_listeners_backing_off"));
            }
            if late {
                sh.violate(
                    Violation::new(
                        "backoff-deadline-missed",
                        format!(
                            "listener l{l} is to be re-registered in {min_rem:?} but the accept loop's poll timeout is {:?}: it sleeps past the end of that back-off",
                            acc.timeout()
                        ),
                    )
                    .fact("listeners_backing_off", rem.len()),
                );
            }
        }
    }
    if prop == "C05" {
        let _ = paused_before;
        if let Some((tok, errno)) = sh.fault_fired_in_step.get() {
            let l = sh.token_of_listener.borrow().iter().position(|t| *t == tok).unwrap_or(0);
            if CONN_ERRNOS.contains(&errno) && !acc.alive() {
                // the loop ended in this very iteration (it processed Stop): nothing to judge
            } else if CONN_ERRNOS.contains(&errno) {
                sh.ctx(|ctx| ctx.bump("probe.per_connection_error_handled"));
                if acc.timeout() != timeout_before && timeout_before.is_none() {
                    sh.violate(
                        Violation::new(
                            "conn-error-backoff",
                            format!("per-connection accept error (errno {errno}) on l{l} armed a back-off"),
                        )
                        .fact("errno", errno),
                    );
                } else if !acc.paused() && acc.any_available() && waiting_on(sh, l) > 0 && !acc.socket_backoff(tok) {
                    sh.violate(
                        Violation::new(
                            "conn-error-delayed",
                            format!("after a per-connection accept error (errno {errno}) on l{l} a waiting connection was not accepted in the same wake-up"),
                        )
                        .fact("errno", errno),
                    );
                }
            } else {
                sh.ctx(|ctx| ctx.bump("probe.backoff_armed"));
            }
        }
    }
}

pub fn after_action(sim: &mut Sim) {
    let sh = sim.sh.clone();
    let prop = sh.prop.as_str();
    if prop == "C02" && !sh.worker_fault_seen.get() {
        let n = sh.workers.borrow().len();
        for s in 0..n {
            if sh.workers.borrow()[s].state == SlotState::Running {
                check_limit(&sh, s, "after an action");
            }
        }
    }
    if prop == "C07" {
        judge_restarts(sim);
    }
}

/// C07: a failed readiness check re-creates exactly that service, from its own factory.
fn judge_restarts(sim: &mut Sim) {
    let sh = sim.sh.clone();
    let log = sh.svc_log.borrow();
    let n = sh.cfg.listeners.len();
    while sim.o.pending_restart.len() < log.len() {
        sim.o.pending_restart.push(None);
        sim.o.svc_seen.push(0);
    }
    for slot in 0..log.len() {
        let l = &log[slot];
        while sim.o.svc_seen[slot] < l.len() {
            let pos = sim.o.svc_seen[slot];
            sim.o.svc_seen[slot] += 1;
            match l[pos] {
                SvcEv::PollReady(i, Ready::Err) => {
                    let lst = sh.instances.borrow()[i].listener;
                    sim.o.pending_restart[slot] = Some(lst);
                }
                SvcEv::NewService(i, lst) => {
                    let created_before = l[..pos].iter().filter(|e| matches!(e, SvcEv::NewService(..))).count();
                    if created_before < n {
                        continue; // initial construction
                    }
                    match sim.o.pending_restart[slot].take() {
                        Some(want) if want == lst => {
                            sh.ctx(|ctx| ctx.bump("probe.service_restarted"));
                        }
                        Some(want) => sh.violate(Violation::new(
                            "restart-wrong-service",
                            format!("the service of listener l{want} failed on worker slot {slot} but the service of l{lst} was re-created (i{i})"),
                        )),
                        None => sh.violate(Violation::new(
                            "spurious-restart",
                            format!("service i{i} of l{lst} was re-created on worker slot {slot} without a failed readiness check"),
                        )),
                    }
                }
                SvcEv::Call(i) => {
                    if let Some(want) = sim.o.pending_restart[slot] {
                        sh.violate(Violation::new(
                            "call-during-restart",
                            format!("service i{i} was called on worker slot {slot} while the failed service of l{want} had not been re-created"),
                        ));
                    }
                }
                _ => {}
            }
        }
    }
}

pub fn on_connect_failed(sim: &mut Sim, l: usize, e: &std::io::Error) {
    sim.o.listener_unreachable[l] = true;
    let sh = sim.sh.clone();
    if sh.prop == "C05" && sim.server.is_some() && sh.accept_alive.get() && !sim.o.stop_issued {
        let kind = kind_name(&sh.cfg.listeners[l]);
        sh.violate(
            Violation::new(
                "listener-unreachable",
                format!("a client cannot connect to {kind} listener l{l} of a running server: {e}"),
            )
            .fact("listener", kind),
        );
    }
}

pub fn on_stop_issued(sim: &mut Sim, graceful: bool, via_signal: bool) {
    if sim.o.stop_issued {
        sim.sh.ctx(|ctx| ctx.bump("probe.second_stop"));
        return;
    }
    sim.o.stop_issued = true;
    sim.o.eff_graceful = Some(graceful);
    sim.o.eff_signal = via_signal;
    sim.o.t_stop = sim.now_ms();
    sim.o.advanced_since_stop = false;
    let ws = sim.sh.workers.borrow();
    sim.o.slots_at_stop = ws
        .iter()
        .enumerate()
        .filter(|(_, w)| w.state == SlotState::Running)
        .map(|(i, _)| i)
        .collect();
    let busy = sim.o.slots_at_stop.iter().any(|s| sim.sh.in_progress(*s) > 0);
    drop(ws);
    let paused = sim.sh.accept.borrow().as_ref().map_or(false, |a| a.paused());
    sim.sh.ctx(|ctx| {
        if busy {
            ctx.bump(if graceful { "probe.graceful_stop_with_connections" } else { "probe.forced_stop_with_connections" });
        }
        if paused {
            ctx.bump("probe.stop_while_paused");
        }
    });
}

/// C06: a graceful stop completes only after every worker is idle or the timeout has elapsed.
fn check_graceful_not_early(sim: &Sim, what: &str) {
    let sh = &sim.sh;
    if sh.prop != "C06" || sim.o.eff_graceful != Some(true) {
        return;
    }
    let now = sim.now_ms();
    let deadline = sim.o.t_stop.saturating_add(sh.cfg.shutdown_timeout_s.saturating_mul(1000));
    if now >= deadline {
        sh.ctx(|ctx| ctx.bump("probe.graceful_completed_by_timeout"));
        return;
    }
    for s in &sim.o.slots_at_stop {
        // a worker that has died since (its thread unwound) took its connections with it: there
        // is nothing left that a graceful stop could wait for
        if sh.workers.borrow()[*s].state == SlotState::Killed {
            continue;
        }
        let n = sh
            .conns
            .borrow()
            .iter()
            .filter(|c| c.owner == Some(*s) && c.calls > 0 && !c.finished && !c.discarded)
            .count();
        if n > 0 {
            let idx = sh.workers.borrow()[*s].idx;
            sh.violate(
                Violation::new(
                    "graceful-too-early",
                    format!("{what} resolved at {now}ms although worker w{idx} still has {n} connection(s) in progress and the shutdown timeout ends at {deadline}ms"),
                )
                .fact("signal", sim.o.eff_signal),
            );
            return;
        }
    }
    sh.ctx(|ctx| ctx.bump("probe.graceful_completed_idle"));
}

pub fn on_stop_resolved(sim: &mut Sim, _i: usize) {
    check_graceful_not_early(sim, "the stop future");
    sim.sh.stop_done.set(true);
}

pub fn at_quiescence(sim: &mut Sim) {
    let sh = sim.sh.clone();
    let prop = sh.prop.as_str();
    if prop == "C05" && !sim.ack_futs.is_empty() && !sim.o.stop_issued && sim.server.is_some() {
        // pause()/resume() futures only await the acknowledgement: at quiescence the server (or its
        // end) has answered every command issued so far
        let w = std::task::Waker::noop();
        let mut cx = std::task::Context::from_waker(&w);
        let mut pending = 0;
        sim.ack_futs.retain_mut(|(f, _)| {
            if f.as_mut().poll(&mut cx).is_ready() {
                false
            } else {
                pending += 1;
                true
            }
        });
        if pending > 0 {
            sh.violate(Violation::new(
                "command-not-acknowledged",
                format!("{pending} pause()/resume() future(s) are unresolved at quiescence although the server has processed its command queue"),
            ));
            return;
        }
        sh.ctx(|ctx| ctx.bump("probe.commands_acknowledged"));
    }
    if prop == "C05" && !sim.o.stop_issued && sim.server.is_some() && sh.accept_alive.get() {
        // commands are handled in order, and at quiescence the accept loop has processed every
        // wake-up: it is paused exactly if the last command was pause()
        if let Some(want) = sim.o.last_pause_cmd {
            let is = sh.accept.borrow().as_ref().map_or(want, |a| a.paused());
            if is != want {
                sh.violate(Violation::new(
                    if want { "pause-not-effective" } else { "resume-not-effective" },
                    format!(
                        "the last command acknowledged was {}() but at quiescence the accept loop is {}",
                        if want { "pause" } else { "resume" },
                        if is { "paused" } else { "accepting" }
                    ),
                ));
                return;
            }
            sh.ctx(|ctx| ctx.bump("probe.pause_state_judged"));
        }
    }
    if sim.server.is_none() && sim.o.t_server_done.is_some() && !sh.stop_done.get() {
        check_graceful_not_early(sim, "the Server future");
        sh.stop_done.set(true);
    }
    if prop == "C06" && sim.o.eff_graceful == Some(false) && !sim.o.advanced_since_stop && sim.server_result.is_none() {
        // forced: completes without waiting for connections (no clock advance needed)
        // the effective (first) stop is acknowledged at once; later stop futures resolve when the
        // server ends, which with system_exit is 300 ms later (judged by the end-of-run rule)
        for (i, f) in sim.stop_futs.iter().enumerate().take(1) {
            if !f.dropped && f.resolved_ms.is_none() {
                sh.violate(Violation::new(
                    "forced-waited",
                    format!("forced stop: stop future {i} is unresolved at quiescence with no time advanced"),
                ));
            }
        }

        sh.ctx(|ctx| ctx.bump("probe.forced_stop_judged"));
    }
    if prop == "C01" && sim.o.stop_issued && sim.o.eff_graceful == Some(true) {
        // A worker that has seen the stop releases (closes) whatever is queued at it; at quiescence
        // every worker has been polled since, so nothing dispatched to a live worker may still be
        // sitting open and un-served in its queue.
        let n = sh.conns.borrow().len();
        for c in 0..n {
            let queued = {
                let conns = sh.conns.borrow();
                let r = &conns[c];
                r.accepted && r.calls == 0 && !r.discarded && r.stream.is_some() && r.owner.map_or(false, |s| sh.workers.borrow()[s].state == SlotState::Running)
            };
            if queued {
                if !sim.closed_by_server(c) {
                    sh.violate(Violation::new(
                        "leaked-on-shutdown",
                        format!("connection c{c} is queued at a worker that is shutting down and, at quiescence, is neither served nor closed"),
                    ));
                    return;
                }
                sh.ctx(|ctx| ctx.bump("probe.queued_conn_released_on_shutdown"));
            }
        }
    }
    if prop == "C06" && sim.o.eff_graceful == Some(false) && sim.o.eff_signal && sim.server.is_some() && sim.o.forced_seen_at.is_none() {
        // first quiescent state after the signal: the server has handled it by now (it was
        // polled), what remains is the 300 ms system-exit delay
        sim.o.forced_seen_at = Some(sim.now_ms());
    } else if prop == "C06" && sim.o.eff_graceful == Some(false) && sim.o.eff_signal && sim.server.is_some() && sim.o.forced_seen_at.map_or(false, |t| sim.now_ms() >= t + 400) {
        // SIGINT / SIGQUIT: forced, only the 300 ms system-exit delay may pass
        sh.violate(
            Violation::new(
                "forced-waited",
                format!("forced stop by signal, handled by {}ms: the Server future is still unresolved at quiescence at {}ms", sim.o.forced_seen_at.unwrap_or(0), sim.now_ms()),
            )
            .fact("signal", true),
        );
        return;
    }
    if sim.server.is_none() || !sh.accept_alive.get() || sim.o.stop_issued {
        return;
    }
    let (paused, timeout, handles, avail_view): (bool, bool, Vec<usize>, Vec<bool>) = {
        let a = sh.accept.borrow();
        let a = a.as_ref().unwrap();
        let h = a.handle_idxs();
        let av = h.iter().map(|i| a.available(*i)).collect();
        (a.paused(), a.timeout().is_some(), h, av)
    };
    // paused *by command*: at quiescence every command has been processed, so the last one issued
    // says whether the server is meant to be paused (the loop's own flag is what is being judged)
    let paused = if matches!(prop, "C03" | "C08") { sim.o.last_pause_cmd == Some(true) } else { paused };
    if paused || timeout || sh.armed_fault.get().is_some() {
        return;
    }
    if prop == "C04" && handles.len() == sh.cfg.workers {
        let all_spare = handles.iter().all(|idx| sh.live_slot_of(*idx).map_or(false, |s| sh.in_progress(s) < sh.cfg.limit));
        if all_spare {
            let mark = (sh.dispatch_log.borrow().len(), sh.conns.borrow().iter().filter(|c| c.finished).count());
            if sim.o.q_marks.last() != Some(&mark) {
                sim.o.q_marks.push(mark);
            }
        }
    }
    if prop == "C03" || prop == "C08" {
        for l in 0..sh.cfg.listeners.len() {
            let waiting = waiting_on(&sh, l);
            if waiting == 0 {
                continue;
            }
            sh.ctx(|ctx| ctx.bump("probe.quiescent_with_backlog"));
            for (pos, idx) in handles.iter().enumerate() {
                let Some(slot) = sh.live_slot_of(*idx) else { continue };
                let n = sh.in_progress(slot);
                if n < sh.cfg.limit {
                    let ctr = sh.accept.borrow().as_ref().unwrap().handle_counters()[pos];
                    sh.violate(
                        Violation::new(
                            "stranded-capacity",
                            format!(
                                "quiescent: {waiting} connection(s) waiting on l{l}; worker w{idx} has {n} in progress < limit {}; accept's availability bit = {}; counter value = {ctr}",
                                sh.cfg.limit, avail_view[pos]
                            ),
                        )
                        .fact("limit", sh.cfg.limit),
                    );
                    return;
                }
            }
        }
        sh.ctx(|ctx| ctx.bump("probe.quiescence_judged"));
    }
}

// ------------------------------------------------------------------------------------------------
// drain phase and end-of-run oracles

async fn run_down_backoff(sim: &mut Sim) {
    for _ in 0..8 {
        let to = sim.sh.accept.borrow().as_ref().and_then(|a| a.timeout());
        let Some(d) = to else { break };
        sim.advance(d.as_millis() as u64 + 1).await;
        if sim.sh.accept_alive.get() {
            accept_step(&sim.sh, true, false);
        }
        sim.settle();
    }
}

fn release_all(sim: &mut Sim) {
    let n = sim.sh.conns.borrow().len();
    for c in 0..n {
        sim.release(c);
    }
}

pub async fn drain_and_final(sim: &mut Sim) {
    let sh = sim.sh.clone();
    let prop = sh.prop.clone();
    sh.ctx(|ctx| ev!(ctx, "-- drain --"));
    sh.draining.set(true);
    for w in sh.workers.borrow_mut().iter_mut() {
        w.frozen = false;
    }
    if prop != "C06" {
        sh.restart_gate_open.set(true);
        for w in sh.restart_gate_wakers.borrow_mut().drain(..) {
            w.wake();
        }
    }
    sh.armed_fault.set(None);
    sh.panic_next_call.set(None);
    sim.settle();
    if sh.violated() {
        return;
    }
    match prop.as_str() {
        "C06" => return final_c06(sim).await,
        _ if sh.cfg.scripts => {
            // every script becomes ready again (with a wake, as a legal service would)
            let n = sh.instances.borrow().len();
            for i in 0..n {
                let w = {
                    let mut is = sh.instances.borrow_mut();
                    if is[i].failed {
                        None
                    } else {
                        is[i].ready = Ready::Ok;
                        is[i].waker.take()
                    }
                };
                if let Some(w) = w {
                    w.wake();
                }
            }
        }
        _ => {}
    }
    let running = sim.server.is_some() && sh.accept_alive.get() && !sim.o.stop_issued;
    if running && sh.accept.borrow().as_ref().map_or(false, |a| a.paused()) {
        drop(sim.handle.resume());
        sim.o.last_pause_cmd = Some(false);
        sh.ctx(|ctx| ev!(ctx, "drain: resume"));
    }
    sim.settle();
    for _ in 0..4 {
        release_all(sim);
        sim.settle();
        if sh.violated() {
            return;
        }
    }
    if sim.o.stop_issued {
        // let a graceful shutdown run to its end
        for _ in 0..(sh.cfg.shutdown_timeout_s.min(45) + 3) {
            if sim.server.is_none() {
                break;
            }
            sim.advance(1000).await;
            sim.settle();
        }
    }
    run_down_backoff(sim).await;
    if sh.violated() {
        return;
    }
    judge_restarts(sim);
    let running = sim.server.is_some() && sh.accept_alive.get() && !sim.o.stop_issued;

    // probes: every listener of a running server must serve a fresh client
    if running && matches!(prop.as_str(), "C05" | "C08" | "C03" | "C01") {
        for l in 0..sh.cfg.listeners.len() {
            if sim.o.listener_unreachable[l] {
                continue;
            }
            match sim.connect(l, true) {
                Ok(_) => {}
                Err(e) => on_connect_failed(sim, l, &e),
            }
        }
        sim.settle();
        release_all(sim);
        sim.settle();
        if sh.violated() {
            return;
        }
        let (any_avail, handles) = {
            let a = sh.accept.borrow();
            let a = a.as_ref().unwrap();
            let h = a.handle_idxs();
            let dispatchable = h.iter().any(|i| a.available(*i));
            (dispatchable, h)
        };
        for l in 0..sh.cfg.listeners.len() {
            let w = waiting_on(&sh, l);
            if w == 0 {
                continue;
            }
            let kind = kind_name(&sh.cfg.listeners[l]);
            match prop.as_str() {
                "C05" if any_avail => {
                    sh.violate(
                        Violation::new(
                            "listener-stranded",
                            format!("after pause/resume/back-off ended, {w} client(s) are still waiting on {kind} listener l{l} at quiescence although the accept loop sees an available worker"),
                        )
                        .fact("listener", kind)
                        .fact("after_pause", sim.o.pause_seen),
                    );
                    return;
                }
                "C08" if any_avail && !handles.is_empty() => {
                    sh.violate(Violation::new(
                        "replacement-not-serving",
                        format!("after worker faults, {w} client(s) are still waiting on l{l} at quiescence although the accept loop sees an available worker (rotation: {handles:?})"),
                    ));
                    return;
                }
                "C05" if !handles.is_empty() && !sh.accept.borrow().as_ref().map_or(true, |a| a.paused()) => {
                    // the accept loop sees no available worker although every connection has been
                    // released: an availability notice got lost on the way (e.g. during a pause)
                    let spare = handles.iter().find(|idx| sh.live_slot_of(**idx).map_or(false, |s| sh.in_progress(s) < sh.cfg.limit));
                    if let Some(idx) = spare {
                        sh.violate(
                            Violation::new(
                                "listener-stranded",
                                format!("after pause/resume/back-off ended, {w} client(s) are still waiting on {kind} listener l{l} at quiescence: worker w{idx} is idle but the accept loop does not see it as available"),
                            )
                            .fact("listener", kind)
                            .fact("after_pause", sim.o.pause_seen),
                        );
                        return;
                    }
                }
                "C08" if !handles.is_empty() => {
                    // the accept loop sees no available worker: true only if every worker in the
                    // rotation really is at its limit (every connection was released above)
                    let spare = handles.iter().find(|idx| sh.live_slot_of(**idx).map_or(false, |s| sh.in_progress(s) < sh.cfg.limit));
                    if let Some(idx) = spare {
                        let slot = sh.live_slot_of(*idx).unwrap();
                        sh.violate(Violation::new(
                            "rotation-member-never-available",
                            format!(
                                "after worker faults, {w} client(s) are still waiting on l{l} at quiescence: worker w{idx} is in the rotation {handles:?} with {} connection(s) in progress (limit {}) but the accept loop never marks it available again",
                                sh.in_progress(slot),
                                sh.cfg.limit
                            ),
                        ));
                        return;
                    }
                }
                _ => {}
            }
        }
    }

    // ledger
    if matches!(prop.as_str(), "C01" | "C08" | "C07" | "C05") {
        let server_done = sim.server.is_none();
        let n = sh.conns.borrow().len();
        for c in 0..n {
            let (accepted, calls, discarded, owner, finished) = {
                let conns = sh.conns.borrow();
                let r = &conns[c];
                (r.accepted, r.calls, r.discarded, r.owner, r.finished)
            };
            if !accepted {
                continue;
            }
            if calls == 0 && !discarded {
                let owner_state = owner.map(|s| sh.workers.borrow()[s].state);
                if owner_state == Some(SlotState::Running) && !server_done {
                    sh.violate(Violation::new(
                        if prop == "C07" { "queued-lost" } else { "lost-connection" },
                        format!("connection c{c} was accepted and dispatched to a live worker but never handed to a service (server still running, quiescent)"),
                    ));
                    return;
                }
            }
            if calls == 0 && (discarded || server_done) && prop == "C01" {
                // queued at a worker that shut down: must have been released (closed)
                if !sim.closed_by_server(c) && sh.conns.borrow()[c].stream.is_some() {
                    sh.violate(Violation::new(
                        "leaked-on-shutdown",
                        format!("connection c{c} was queued at a worker that shut down but is still open from the client's side"),
                    ));
                    return;
                }
                sh.ctx(|ctx| ctx.bump("probe.queued_conn_released_on_shutdown"));
            }
            let _ = finished;
        }
    }
    if prop == "C07" {
        // per worker, calls happen in dispatch order
        let nslots = sh.workers.borrow().len();
        for s in 0..nslots {
            let conns = sh.conns.borrow();
            let mut v: Vec<(u64, u64, usize)> = conns
                .iter()
                .enumerate()
                .filter(|(_, c)| c.owner == Some(s) && c.calls > 0)
                .map(|(i, c)| (c.dispatch_seq, c.call_seq, i))
                .collect();
            v.sort();
            for w in v.windows(2) {
                if w[0].1 > w[1].1 {
                    sh.violate(Violation::new(
                        "queue-order",
                        format!("on worker slot {s}, connection c{} was dispatched before c{} but served after it", w[0].2, w[1].2),
                    ));
                    return;
                }
            }
            if v.len() >= 2 {
                sh.ctx(|ctx| ctx.bump("probe.queue_order_checked"));
            }
        }
        for (slot, p) in sim.o.pending_restart.iter().enumerate() {
            if let Some(l) = p {
                if sh.workers.borrow()[slot].state == SlotState::Running {
                    sh.violate(Violation::new(
                        "no-restart",
                        format!("the service of l{l} failed its readiness check on worker slot {slot} and was never re-created"),
                    ));
                }
            }
        }
    }
    if prop == "C08" && running {
        // a dead worker whose connections have all been torn down (they were released above) and a
        // client that waits: the tear-down of a saturated worker announces a free slot, an
        // unsaturated one still has its bit set, so the next dispatch finds the fault
        let waiting: usize = (0..sh.cfg.listeners.len()).filter(|l| !sim.o.listener_unreachable[*l]).map(|l| waiting_on(&sh, l)).sum();
        if waiting > 0 {
            let handles = sh.accept.borrow().as_ref().unwrap().handle_idxs();
            let ws = sh.workers.borrow();
            // (a connection that was still queued at the worker when it died never got a counter
            // guard: nothing announces its end and the worker keeps looking saturated — observation
            // O3, outside the statement; only deaths whose connections had all been picked up count)
            let conns = sh.conns.borrow();
            let dead_in_rotation = handles.iter().find(|idx| {
                // the incarnation the rotation's handle belongs to is the latest one
                let last = ws.iter().enumerate().filter(|(_, w)| w.idx == **idx).map(|(slot, _)| slot).last();
                sh.live_slot_of(**idx).is_none()
                    && last.map_or(false, |slot| ws[slot].state == SlotState::Killed && !conns.iter().any(|c| c.owner == Some(slot) && c.calls == 0))
            });
            if let Some(idx) = dead_in_rotation {
                sh.violate(Violation::new(
                    "fault-never-discovered",
                    format!("worker w{idx} is dead and all of its connections are gone, {waiting} client(s) wait at quiescence, but nothing is dispatched to it: its death is never discovered and no replacement is started (rotation {handles:?})"),
                ));
                return;
            }
        }
    }
    if prop == "C08" && running {
        let handles = sh.accept.borrow().as_ref().unwrap().handle_idxs();
        let failed = sh.send_failed_idx.borrow().clone();
        let mut idxs = failed.clone();
        idxs.sort();
        idxs.dedup();
        for idx in idxs {
            // every discovery (failed send) of a dead worker w<idx> must have been answered by one
            // more incarnation of that index, whose handle is in the rotation
            let discoveries = failed.iter().filter(|i| **i == idx).count();
            let incarnations = sh.workers.borrow().iter().filter(|w| w.idx == idx).count();
            if incarnations < discoveries + 1 || !handles.contains(&idx) {
                sh.violate(Violation::new(
                    "no-replacement",
                    format!("worker w{idx} was found dead {discoveries} time(s) but {incarnations} incarnation(s) were ever started and the rotation at quiescence is {handles:?}"),
                ));
                return;
            }
            sh.ctx(|ctx| ctx.bump("probe.replacement_in_rotation"));
            let ws = sh.workers.borrow();
            let served = sh
                .conns
                .borrow()
                .iter()
                .any(|c| c.calls > 0 && c.owner.map_or(false, |s| ws[s].idx == idx && ws[s].inc > 0));
            drop(ws);
            if served {
                sh.ctx(|ctx| ctx.bump("probe.replacement_served"));
            }
        }
    }
    if prop == "C04" {
        final_c04(&sh);
        // From a quiescent state in which every worker of the full rotation has spare capacity
        // (so the accept loop's view is up to date: nothing is in flight), the next W dispatches
        // made before any further completion must go to W distinct workers.
        let w = sh.cfg.workers;
        let log = sh.dispatch_log.borrow();
        for (start, fin) in &sim.o.q_marks {
            if log.len() >= start + w {
                let win = &log[*start..start + w];
                if win.iter().all(|r| r.finished_before == *fin && r.n_handles == w) {
                    sh.ctx(|ctx| ctx.bump("probe.rr_window_from_quiescence"));
                    let mut idxs: Vec<usize> = win.iter().map(|r| r.idx).collect();
                    idxs.sort();
                    idxs.dedup();
                    if idxs.len() != w {
                        let seq: Vec<usize> = win.iter().map(|r| r.idx).collect();
                        sh.violate(Violation::new(
                            "rr-repeat",
                            format!("after a quiescent state in which no worker was saturated, the next {w} connections went to workers {seq:?}, not to {w} distinct workers"),
                        ));
                        break;
                    }
                }
            }
        }
    }
    nontrivial(sim);
}

fn final_c04(sh: &Rc<Shared>) {
    let log = sh.dispatch_log.borrow();
    let w = sh.cfg.workers;
    // Saturation is judged on the fault-free prefix of the history only: after a worker fault the
    // accounting is off by design (the connection that discovered the fault is forced onto a live
    // worker even at its limit, and availability notices of the dead incarnation's connections
    // still arrive under the same index) -- C02's own proviso, and C04 quantifies over fault-free
    // histories. The rotation rules below keep applying.
    let first_fault = sh.first_fault_dispatch.get();
    for (n, r) in log.iter().enumerate() {
        if n >= first_fault {
            break;
        }
        if r.target_in_progress_before >= sh.cfg.limit {
            sh.violate(Violation::new(
                "dispatch-to-saturated",
                format!("connection c{} was dispatched to worker w{} which already had {} in progress (limit {})", r.conn, r.idx, r.target_in_progress_before, sh.cfg.limit),
            ));
            return;
        }
    }
    if log.len() >= w {
        for win in log.windows(w) {
            if win.iter().all(|r| r.all_avail && r.n_handles == w) {
                sh.ctx(|ctx| ctx.bump("probe.rr_window_checked"));
                let mut idxs: Vec<usize> = win.iter().map(|r| r.idx).collect();
                idxs.sort();
                idxs.dedup();
                if idxs.len() != w {
                    let seq: Vec<usize> = win.iter().map(|r| r.idx).collect();
                    sh.violate(Violation::new(
                        "rr-repeat",
                        format!("{w} consecutive dispatches with every worker available went to {seq:?}, not to {w} distinct workers"),
                    ));
                    return;
                }
            }
        }
    }
}

async fn final_c06(sim: &mut Sim) {
    let sh = sim.sh.clone();
    if !sim.o.stop_issued {
        nontrivial(sim);
        return;
    }
    // keep advancing: graceful completes when the workers are idle or at the timeout (plus the
    // 1 s worker tick), forced at once; signal mode adds the 300 ms exit delay
    // an unbounded timeout: the graceful stop ends when the connections do
    let unbounded = sh.cfg.shutdown_timeout_s > 1000;
    let t = sh.cfg.shutdown_timeout_s.min(45);
    let release_first = unbounded || sh.chooser(|ch| !ch.taken.is_empty() && ch.taken.len() % 2 == 0);
    if release_first {
        release_all(sim);
        sim.settle();
    }
    for _ in 0..(t + 3) {
        if sim.server.is_none() && sim.stop_futs.iter().all(|f| f.fut.is_none()) {
            break;
        }
        sim.o.advanced_since_stop = true;
        sim.advance(1000).await;
        sim.settle();
        if sh.violated() {
            return;
        }
    }
    for (i, f) in sim.stop_futs.iter().enumerate() {
        if f.fut.is_some() {
            sh.violate(Violation::new(
                "stop-never-completes",
                format!("stop future {i} (graceful={}) is unresolved {}s after the stop although time was advanced past the shutdown timeout", f.graceful, t + 3),
            ));
            return;
        }
    }
    if sim.server.is_some() {
        sh.violate(
            Violation::new(
                "server-never-completes",
                format!("the Server future is unresolved {}s after the stop", t + 3),
            )
            .fact("signal", sim.o.eff_signal),
        );
        return;
    }
    if sim.server_result == Some(false) {
        sh.violate(Violation::new("server-error", "the Server future resolved with an error"));
    }
    sh.ctx(|ctx| ctx.bump("probe.stop_completed"));
    nontrivial(sim);
}

fn nontrivial(sim: &mut Sim) {
    let sh = sim.sh.clone();
    let (dispatched, finished, faults, cmds) = sh.ctx(|ctx| {
        let g = |k: &str| ctx.stats.iter().find(|(n, _)| **n == k).map_or(0, |(_, v)| *v);
        let _ = g;
        (0u64, 0u64, 0u64, 0u64)
    });
    let _ = (dispatched, finished, faults, cmds);
    let conns = sh.conns.borrow();
    let d = conns.iter().filter(|c| c.owner.is_some()).count();
    let f = conns.iter().filter(|c| c.finished).count();
    let nt = match sh.prop.as_str() {
        "C05" => d >= 1 && (sim.paused_cmds > 0 || sim.o.faults_injected > 0),
        "C06" => sim.o.stop_issued,
        "C07" => d >= 1 && sh.instances.borrow().iter().any(|i| i.polls > 1),
        "C08" => d >= 1 && (sim.o.kills > 0),
        _ => d >= 1 && f >= 1,
    };
    drop(conns);
    sh.ctx(|ctx| ctx.nontrivial = nt);
}

// ------------------------------------------------------------------------------------------------
// C04 component check: the real availability bit set against a boolean-array model

pub fn run_bitset(_cfg: &Config, ch: &mut Chooser<Action>, ctx: &mut RunCtx) -> Option<Violation> {
    let mut real = AvailabilityProbe::default();
    let mut model = [false; 512];
    let mut n = 0u32;
    loop {
        let mut en: Vec<(Action, u32)> = Vec::new();
        // a fixed, seed-independent candidate set per step would be 1024 actions; instead offer a
        // window derived from the step number (still a pure function of the recorded prefix)
        let base = (n as usize * 97) % 512;
        for k in [0usize, 1, 63, 64, 127, 128, 129, 255, 256, 383, 384, 511] {
            let i = (base + k) % 512;
            en.push((Action::BitSet(i, true), 2));
            en.push((Action::BitSet(i, false), 2));
            en.push((Action::BitGet(i), 1));
        }
        let Some(a) = ch.choose(&en) else { break };
        n += 1;
        match a {
            Action::BitSet(i, v) => {
                real.set_available(i, v);
                model[i] = v;
                ev!(ctx, "set {i} {v}");
            }
            Action::BitGet(i) => {
                ev!(ctx, "get {i}");
            }
            _ => {}
        }
        for i in 0..512 {
            if real.get_available(i) != model[i] {
                return Some(Violation::new(
                    "bitset-crosstalk",
                    format!("after {a:?}: availability of index {i} is {} but the model says {}", real.get_available(i), model[i]),
                ));
            }
        }
        if real.available() != model.iter().any(|b| *b) {
            return Some(Violation::new("bitset-any", "available() disagrees with the model"));
        }
        ctx.state(hash_u64s(&[model.iter().filter(|b| **b).count() as u64, 4242]));
    }
    ctx.bump("probe.bitset_runs");
    ctx.nontrivial = n >= 2;
    None
}

// ------------------------------------------------------------------------------------------------

pub fn required_probes(prop: &str, tier: Tier) -> Vec<&'static str> {
    let _ = tier;
    match prop {
        "C02" => vec!["probe.worker_at_limit", "probe.race_window_progress"],
        "C03" => vec!["probe.quiescent_with_backlog", "probe.quiescence_judged"],
        "C01" => vec!["probe.queued_conn_released_on_shutdown", "probe.race_window_progress"],
        "C04" => vec!["probe.rr_window_checked", "probe.rr_window_from_quiescence", "probe.bitset_runs", "probe.rr_cursor_checked"],
        "C05" => vec!["probe.backoff_armed", "probe.per_connection_error_handled", "probe.commands_acknowledged", "cmd.pause", "cmd.resume", "probe.two_listeners_backing_off", "probe.pause_state_judged"],
        "C06" => vec!["probe.stop_completed", "probe.graceful_stop_with_connections", "probe.forced_stop_with_connections", "probe.forced_stop_judged", "probe.second_stop", "probe.stop_future_dropped", "probe.stop_after_server_end", "probe.stop_window_progress", "fault.worker_frozen", "probe.restart_waiting_at_gate"],
        "C07" => vec!["probe.call_after_ready_round", "probe.service_restarted", "probe.queue_order_checked", "probe.busy_after_call", "probe.connection_burst"],
        "C08" => vec!["probe.send_failed_discovered", "probe.replacement_in_rotation", "probe.replacement_served", "fault.factory_fails_on_restart"],
        _ => vec![],
    }
}

pub fn describe(prop: &str) -> Describe {
    let rule = match prop {
        "C01" => "seeded schedules of client connects (TCP/UDS, 1..2 listeners), accept-loop iterations, worker polls, LocalSet ticks, connection completions, pause/resume and stop commands over the real server with 1..3 workers and limits 1..3; connection ledger checked online (wrong service / double call / served after shutdown / dropped while handles remain), at quiescent states after a graceful stop (queued connections must already be closed) and after a drain phase (lost / leaked); non-trivial = at least one dispatch and one completion; distinct = distinct event-trace hash",
        "C02" => "seeded schedules incl. worker-side progress inside the send->increment window; per-worker `dispatched - finished <= limit` after every action and at every service call, fault-free runs; limits 1..4, 1..3 workers, <=16 connections; non-trivial = >=1 dispatch and >=1 completion",
        "C03" => "same schedules as C02; at every quiescent state (no enabled internal action, no timer, not paused) no client may be waiting while a worker in the rotation has spare capacity; non-trivial = >=1 dispatch and >=1 completion",
        "C04" => "dispatch log of fault-free schedules: every window of W consecutive dispatches made while the accept loop's own view had all W workers available goes to W distinct workers; from a quiescent state in which no worker of the full rotation is saturated the next W dispatches made before any completion go to W distinct workers (independent of the accept loop's view); no dispatch targets a worker already at its limit; pause/resume included; plus seeded set/get histories on the real availability bit set over indices 0..512 against a boolean-array model; non-trivial = >=1 dispatch and >=1 completion (or >=2 bit operations)",
        "C05" => "seeded command storms (pause/resume, unmatched, repeated), injected accept errors of each kind (EMFILE, ENFILE, ENOBUFS, ENOMEM back-off class; ECONNABORTED/RESET/REFUSED per-connection class), clock advances and connects on TCP and UDS listeners; fault-point sweeps insert each fault at every position of sampled fault-free histories; stop is part of the command alphabet; oracles: nothing is accepted while the accept loop is paused once the pause has taken effect in an earlier iteration, per-connection errors arm no back-off and delay nothing, every pause()/resume() future is acknowledged, and after the drain phase every listener accepts a fresh client; non-trivial = >=1 dispatch and >=1 command or fault",
        "C06" => "stop(graceful/forced), second stop, dropped stop future, real SIGTERM/SIGINT/SIGQUIT raised in-process, at every position of sampled histories (sweeps) with 0..3 connections in progress, completion times before/at/after the shutdown timeout in virtual time; oracles: graceful never completes while a worker is busy before the timeout, forced completes with zero clock advance (through a signal: within the 300 ms exit delay after the server handled it), every stop future and the Server future resolve, nothing is dispatched after completion; non-trivial = a stop was issued",
        "C07" => "scripted poll_ready (Ok/Pending/Err flipped by simulator actions with a wake) for 1..3 services per worker, factories needing 0..2 polls; oracles on the per-worker event log: a call is immediately preceded by a full all-ready round, a failed readiness check re-creates exactly that service, failed instances are never used again, queued connections are all served after readiness returns and in dispatch order per worker; non-trivial = >=1 dispatch and a service polled more than once",
        "C08" => "worker kills (dropped future / panic inside a service call) at any point incl. sweeps over every position of sampled histories, arbitrarily late completion of a dead worker's connections (stale availability notifications), replacement arriving through the real WorkerFaulted path; oracles: accept loop never panics or spins, no connection dropped while handles remain, dead handle removed, replacement with the same index rejoins the rotation and serves, fresh clients are served at the end; non-trivial = >=1 dispatch and >=1 kill",
        _ => "",
    };
    Describe {
        rule: rule.to_string(),
        real: vec![
            "ServerBuilder", "Server / ServerInner::run + handle_cmd", "ServerHandle", "ServerEventMultiplexer", "Signals (tokio signal driver, real raise)",
            "Accept (all methods incl. the poll_with loop body)", "WakerQueue (real mio::Waker)", "Availability", "Counter / WorkerCounter(Guard)",
            "ServerWorker future (all states)", "StreamService / StreamNewService", "MioListener / MioStream / FromStream", "mio::Poll on real epoll",
            "kernel loopback TCP and Unix-domain sockets", "tokio mpsc/oneshot/timers (paused clock)",
        ],
        stub: vec![
            "OS threads (accept thread, worker arbiters) -> simulator tasks on one thread",
            "thread-spawning halves of Accept::start / ServerWorker::start and the blocking JoinHandle::join (placeholder thread)",
            "actix_rt::System absent (plain tokio runtime + LocalSet)",
            "wall clock -> paused tokio clock",
            "user services -> harness services with simulator-controlled gates and readiness scripts",
        ],
        assumptions: vec![
            "races inside tokio mpsc / mio::Waker themselves are not explored (dependencies)",
            "the only cross-thread window finer than one loop iteration that is modelled is send->inc in send_connection",
            "kernel loopback delivers a connection to the accept queue before connect() returns",
            "sampling, not exhaustive enumeration",
        ],
    }
}
