//! Shared simulation state, hook implementation and harness services for `srvsim`.

use std::{
    cell::{Cell, RefCell},
    collections::HashMap,
    future::Future,
    io,
    marker::PhantomData,
    pin::Pin,
    rc::Rc,
    sync::Arc,
    task::{Context, Poll, Waker},
};

use actix_server::verif::{Hooks, Point, SteppedAccept, WorkerFuture};
use actix_service::{Service, ServiceFactory};
use simcore::{ev, wake::WakeFlag, Chooser, RunCtx, Violation};

use crate::{Action, Config};

#[derive(Clone, Copy, PartialEq, Eq, Debug)]
pub enum SlotState {
    Running,
    Done,
    Killed,
}

pub struct WorkerSlot {
    pub idx: usize,
    pub inc: usize,
    pub fut: Option<WorkerFuture>,
    pub flag: Arc<WakeFlag>,
    pub state: SlotState,
    pub polls: u32,
    /// never polled while set: the worker's thread is stuck in a synchronous section
    pub frozen: bool,
}

pub enum ClientStream {
    Tcp(std::net::TcpStream),
    Uds(std::os::unix::net::UnixStream),
}

pub struct ConnRec {
    pub listener: usize,
    pub stream: Option<ClientStream>,
    pub client_closed: bool,
    pub probe: bool,
    pub accepted: bool,
    pub accepted_seq: u64,
    /// slot (index into `workers`) of the last successful dispatch
    pub owner: Option<usize>,
    pub dispatch_seq: u64,
    pub send_failed: u32,
    pub calls: u32,
    pub call_seq: u64,
    pub call_inst: Option<usize>,
    pub finished: bool,
    /// lost legitimately (queued at a worker that shut down / died, or its call panicked)
    pub discarded: bool,
    pub gate: Option<Rc<Gate>>,
}

#[derive(Clone, Copy, PartialEq, Eq, Debug)]
pub enum Ready {
    Ok,
    Pending,
    Err,
}

pub struct Instance {
    pub slot: usize,
    pub listener: usize,
    pub ready: Ready,
    pub waker: Option<Waker>,
    /// returned `Ready(Err)` once: must never be polled or called again
    pub failed: bool,
    pub polls: u32,
}

pub struct Gate {
    pub open: Cell<bool>,
    pub waker: RefCell<Option<Waker>>,
}

/// One entry of the per-worker readiness/call log (C07).
#[derive(Clone, Copy, Debug, PartialEq)]
pub enum SvcEv {
    PollReady(usize, Ready),
    Call(usize),
    NewService(usize, usize), // (instance, listener)
    /// the worker future is polled (a wake-up begins)
    PollBegin,
    /// the readiness script of this instance changed
    Flip(usize),
}

pub struct Shared {
    pub prop: String,
    pub cfg: Config,
    ch: *mut Chooser<Action>,
    ctx: *mut RunCtx,
    pub violation: RefCell<Option<Violation>>,

    pub accept: RefCell<Option<SteppedAccept>>,
    pub accept_alive: Cell<bool>,
    pub workers: RefCell<Vec<WorkerSlot>>,
    pub conns: RefCell<Vec<ConnRec>>,
    pub peers: RefCell<HashMap<String, usize>>,
    pub instances: RefCell<Vec<Instance>>,
    pub svc_log: RefCell<Vec<Vec<SvcEv>>>, // per slot

    pub current_slot: Cell<Option<usize>>, // worker being constructed / polled
    pub cur_token: Cell<Option<usize>>,
    pub cur_conn: Cell<Option<usize>>,
    pub cur_paused: Cell<bool>,
    pub expect_removed: Cell<Option<usize>>,
    /// reference rotation cursor (position in the handle list) and the list it refers to: the
    /// cursor moves only inside accept_one (one step per skipped or served handle)
    /// the run is in its drain phase (scripts no longer misbehave by themselves)
    pub draining: Cell<bool>,
    /// re-creations of failed services wait here until the simulator opens the gate
    pub restart_gate_open: Cell<bool>,
    pub restart_gate_wakers: RefCell<Vec<Waker>>,
    pub rr_cursor: Cell<Option<usize>>,
    pub rr_handles: RefCell<Vec<usize>>,
    pub drain_windows: Cell<u64>,
    /// length of the dispatch log when the first worker was killed (usize::MAX = no fault yet)
    pub first_fault_dispatch: Cell<usize>,
    pub paused_at_step_begin: Cell<bool>,
    pub armed_fault: Cell<Option<(usize, i32)>>,
    pub fault_fired_in_step: Cell<Option<(usize, i32)>>,
    pub accepted_in_step: Cell<u32>,
    pub accept_one_iters: Cell<u32>,
    pub ls_dirty: Cell<bool>,
    pub panic_next_call: Cell<Option<usize>>,
    pub in_accept_step: Cell<bool>,
    pub race_budget: Cell<u32>,
    pub seq: Cell<u64>,
    pub stop_done: Cell<bool>,
    pub worker_fault_seen: Cell<bool>,
    pub send_failed_idx: RefCell<Vec<usize>>,
    /// dispatch log: (conn, slot, all handles available in accept's view, number of handles, true in-progress of target before dispatch)
    pub dispatch_log: RefCell<Vec<DispatchRec>>,
    pub last_view: RefCell<Option<(Vec<usize>, Vec<bool>, usize)>>,
    pub factory_pending_polls: Cell<u32>,
    pub token_of_listener: RefCell<Vec<usize>>,
    pub race_hook: RefCell<Option<Box<dyn Fn(&Rc<Shared>)>>>,
}

#[derive(Clone, Debug)]
pub struct DispatchRec {
    pub conn: usize,
    pub slot: usize,
    pub idx: usize,
    pub all_avail: bool,
    pub n_handles: usize,
    pub target_in_progress_before: usize,
    /// number of connections finished so far in the run when this dispatch happened
    pub finished_before: usize,
}

thread_local! {
    static SH: RefCell<Option<Rc<Shared>>> = const { RefCell::new(None) };
}

pub fn set_shared(s: Option<Rc<Shared>>) {
    SH.with(|c| *c.borrow_mut() = s);
}

pub fn shared() -> Rc<Shared> {
    SH.with(|c| c.borrow().clone()).expect("srvsim: no simulation active on this thread")
}

pub const SPIN_MARK: &str = "verif: accept_one spin bound exceeded";

impl Shared {
    pub fn new(prop: &str, cfg: &Config, ch: &mut Chooser<Action>, ctx: &mut RunCtx) -> Self {
        Shared {
            prop: prop.to_string(),
            cfg: cfg.clone(),
            ch,
            ctx,
            violation: RefCell::new(None),
            accept: RefCell::new(None),
            accept_alive: Cell::new(false),
            workers: RefCell::new(Vec::new()),
            conns: RefCell::new(Vec::new()),
            peers: RefCell::new(HashMap::new()),
            instances: RefCell::new(Vec::new()),
            svc_log: RefCell::new(Vec::new()),
            current_slot: Cell::new(None),
            cur_token: Cell::new(None),
            cur_conn: Cell::new(None),
            cur_paused: Cell::new(false),
            expect_removed: Cell::new(None),
            draining: Cell::new(false),
            restart_gate_open: Cell::new(false),
            restart_gate_wakers: RefCell::new(Vec::new()),
            rr_cursor: Cell::new(None),
            rr_handles: RefCell::new(Vec::new()),
            drain_windows: Cell::new(0),
            first_fault_dispatch: Cell::new(usize::MAX),
            paused_at_step_begin: Cell::new(false),
            armed_fault: Cell::new(None),
            fault_fired_in_step: Cell::new(None),
            accepted_in_step: Cell::new(0),
            accept_one_iters: Cell::new(0),
            ls_dirty: Cell::new(false),
            panic_next_call: Cell::new(None),
            in_accept_step: Cell::new(false),
            race_budget: Cell::new(0),
            seq: Cell::new(0),
            stop_done: Cell::new(false),
            worker_fault_seen: Cell::new(false),
            send_failed_idx: RefCell::new(Vec::new()),
            dispatch_log: RefCell::new(Vec::new()),
            last_view: RefCell::new(None),
            factory_pending_polls: Cell::new(0),
            token_of_listener: RefCell::new(Vec::new()),
            race_hook: RefCell::new(None),
        }
    }

    /// Short exclusive access to the run context; `f` must not call back into simulated code.
    pub fn ctx<R>(&self, f: impl FnOnce(&mut RunCtx) -> R) -> R {
        // SAFETY: single-threaded; the pointer is valid for the duration of the run and no other
        // reference to the RunCtx is live while `f` runs (the engine only touches it through here).
        f(unsafe { &mut *self.ctx })
    }

    pub fn chooser<R>(&self, f: impl FnOnce(&mut Chooser<Action>) -> R) -> R {
        // SAFETY: as above.
        f(unsafe { &mut *self.ch })
    }

    pub fn next_seq(&self) -> u64 {
        let s = self.seq.get() + 1;
        self.seq.set(s);
        s
    }

    pub fn violate(&self, v: Violation) {
        let mut cur = self.violation.borrow_mut();
        if cur.is_none() {
            *cur = Some(v);
        }
    }

    pub fn violated(&self) -> bool {
        self.violation.borrow().is_some()
    }

    /// True number of connections in progress at a worker slot: dispatched and not finished.
    pub fn in_progress(&self, slot: usize) -> usize {
        self.conns
            .borrow()
            .iter()
            .filter(|c| c.owner == Some(slot) && !c.finished && !c.discarded)
            .count()
    }

    /// Latest incarnation of worker `idx` that is still running.
    pub fn live_slot_of(&self, idx: usize) -> Option<usize> {
        self.workers
            .borrow()
            .iter()
            .enumerate()
            .rev()
            .find(|(_, w)| w.idx == idx && w.state == SlotState::Running)
            .map(|(i, _)| i)
    }
}

// ------------------------------------------------------------------------------------------------
// hooks

pub struct SimHooks(pub Rc<Shared>);

impl Hooks for SimHooks {
    fn point(&self, p: Point) {
        let sh = &self.0;
        match p {
            Point::BeforeAccept { token, paused } => {
                sh.cur_token.set(Some(token));
                sh.cur_paused.set(paused);
            }
            Point::Accepted { token, peer } => {
                let c = sh.peers.borrow().get(&peer).copied();
                let Some(c) = c else {
                    sh.violate(Violation::new(
                        "harness-unknown-peer",
                        "accepted a connection the simulator did not make",
                    ));
                    return;
                };
                sh.accepted_in_step.set(sh.accepted_in_step.get() + 1);
                sh.cur_conn.set(Some(c));
                let seq = sh.next_seq();
                let (l, again) = {
                    let mut conns = sh.conns.borrow_mut();
                    let r = &mut conns[c];
                    let again = r.accepted;
                    r.accepted = true;
                    r.accepted_seq = seq;
                    (r.listener, again)
                };
                sh.ctx(|ctx| {
                    ev!(ctx, "accepted c{c} token{token}");
                    ctx.bump("accepted");
                });
                if again {
                    sh.violate(Violation::new("accepted-twice", format!("connection c{c} accepted twice")));
                }
                let tok = sh.token_of_listener.borrow()[l];
                if tok != token {
                    sh.violate(Violation::new(
                        "wrong-token",
                        format!("connection c{c} made to listener l{l} (token {tok}) was accepted under token {token}"),
                    ));
                }
                if sh.stop_done.get() {
                    sh.violate(Violation::new(
                        "dispatch-after-stop",
                        format!("connection c{c} accepted after the stop had completed"),
                    ));
                }
                if sh.prop == "C05" && sh.cur_paused.get() && sh.paused_at_step_begin.get() {
                    sh.violate(Violation::new(
                        "accept-while-paused",
                        format!("connection c{c} was accepted while the accept loop was paused (the pause had taken effect in an earlier iteration)"),
                    ));
                }
            }
            Point::AcceptOneIter { handles, avail, next } => {
                let n = sh.accept_one_iters.get() + 1;
                sh.accept_one_iters.set(n);
                if std::env::var("SRVSIM_DEBUG").is_ok() {
                    println!("  # accept_one view: handles {handles:?} avail {avail:?} next {next}");
                }
                if let Some(idx) = sh.expect_removed.take() {
                    // a failed send must remove that handle at once: the very next look at the
                    // rotation (same accept_one call, no waker processing in between) lacks it
                    if handles.contains(&idx) && sh.prop == "C08" {
                        sh.violate(Violation::new(
                            "dead-handle-kept",
                            format!("the handle of dead worker w{idx} is still in the rotation right after a send to it failed"),
                        ));
                    }
                }
                if sh.prop == "C04" && !handles.is_empty() {
                    let same = *sh.rr_handles.borrow() == handles;
                    if let (Some(c), true) = (sh.rr_cursor.get(), same) {
                        if c != next {
                            sh.violate(Violation::new(
                                "rr-cursor-moved",
                                format!(
                                    "the rotation {handles:?} was left with its cursor at position {c} (the handle after the last one served or skipped) but the next dispatch starts looking at position {next}: workers in between lose their turn"
                                ),
                            ));
                        } else {
                            sh.ctx(|ctx| ctx.bump("probe.rr_cursor_checked"));
                        }
                    }
                    let len = handles.len();
                    sh.rr_cursor.set(Some(if avail.get(next).copied().unwrap_or(false) { next } else { (next + 1) % len }));
                    *sh.rr_handles.borrow_mut() = handles.clone();
                }
                *sh.last_view.borrow_mut() = Some((handles, avail, next));
                if n > 10_000 {
                    panic!("{SPIN_MARK}");
                }
            }
            Point::SentBeforeInc(idx) => {
                let Some(c) = sh.cur_conn.get() else { return };
                let slot = sh.live_slot_of(idx);
                let Some(slot) = slot else {
                    sh.violate(Violation::new(
                        "dispatch-to-dead",
                        format!("send of c{c} to worker index {idx} succeeded but no live incarnation exists"),
                    ));
                    return;
                };
                let before = sh.in_progress(slot);
                let seq = sh.next_seq();
                {
                    let h = sh.rr_handles.borrow();
                    match h.iter().position(|x| *x == idx) {
                        Some(p) => sh.rr_cursor.set(Some((p + 1) % h.len())),
                        None => sh.rr_cursor.set(None),
                    }
                }
                {
                    let mut conns = sh.conns.borrow_mut();
                    conns[c].owner = Some(slot);
                    conns[c].dispatch_seq = seq;
                }
                let (all_avail, n_handles) = sh
                    .last_view
                    .borrow()
                    .as_ref()
                    .map(|(h, a, _)| (a.iter().all(|x| *x), h.len()))
                    .unwrap_or((false, 0));
                sh.dispatch_log.borrow_mut().push(DispatchRec {
                    conn: c,
                    slot,
                    idx,
                    all_avail,
                    n_handles,
                    target_in_progress_before: before,
                    finished_before: sh.conns.borrow().iter().filter(|c| c.finished).count(),
                });
                sh.ctx(|ctx| {
                    ev!(ctx, "dispatch c{c} -> w{idx}#{slot} (in progress before: {before})");
                    ctx.bump("dispatched");
                });
                if sh.stop_done.get() {
                    sh.violate(Violation::new(
                        "dispatch-after-stop",
                        format!("connection c{c} dispatched after the stop had completed"),
                    ));
                }
                // wake the worker's flag is done by the real channel; now the race window:
                // the simulator may let worker-side progress happen before the counter increment.
                let hook = sh.race_hook.borrow();
                if let Some(h) = hook.as_ref() {
                    h(sh);
                }
            }
            Point::SendFailed(idx) => {
                sh.worker_fault_seen.set(true);
                sh.rr_cursor.set(None);
                sh.send_failed_idx.borrow_mut().push(idx);
                sh.expect_removed.set(Some(idx));
                // the rotation as the accept loop sees it once this handle is removed
                let left = {
                    let mut v = sh.last_view.borrow_mut();
                    if let Some((h, a, _)) = v.as_mut() {
                        if let Some(p) = h.iter().position(|x| *x == idx) {
                            h.remove(p);
                            a.remove(p);
                        }
                        h.len()
                    } else {
                        usize::MAX
                    }
                };
                if left == 0 {
                    if let Some(c) = sh.cur_conn.get() {
                        // "dropped only when none is left"
                        sh.conns.borrow_mut()[c].discarded = true;
                        sh.ctx(|ctx| ctx.bump("probe.dropped_no_workers"));
                    }
                }
                if let Some(c) = sh.cur_conn.get() {
                    sh.conns.borrow_mut()[c].send_failed += 1;
                    sh.ctx(|ctx| {
                        ev!(ctx, "send of c{c} to w{idx} failed");
                        ctx.bump("probe.send_failed_discovered");
                    });
                }
            }
            Point::QueueDrained { lock_held } => {
                if !lock_held {
                    // the emptiness check and the reset are not atomic: workers may push now
                    sh.ctx(|ctx| ctx.bump("probe.queue_reset_unlocked"));
                    crate::drain_window(sh);
                }
            }
            Point::StopSignalled => {
                sh.ctx(|ctx| ev!(ctx, "server: accept thread told to stop, workers not yet"));
                crate::stop_window(sh);
            }
            Point::WorkerStarting(idx) => {
                // the slot is created here so that service instances built by the factories can be
                // attributed to it; the future arrives in adopt_worker
                let mut ws = sh.workers.borrow_mut();
                let inc = ws.iter().filter(|w| w.idx == idx).count();
                ws.push(WorkerSlot {
                    idx,
                    inc,
                    fut: None,
                    flag: WakeFlag::new(idx as u64),
                    state: SlotState::Running,
                    polls: 0,
                    frozen: false,
                });
                let slot = ws.len() - 1;
                drop(ws);
                sh.svc_log.borrow_mut().push(Vec::new());
                sh.current_slot.set(Some(slot));
                sh.ctx(|ctx| ev!(ctx, "worker w{idx}#{slot} starting (incarnation {inc})"));
            }
        }
    }

    fn accept_fault(&self) -> Option<io::Error> {
        let sh = &self.0;
        if let (Some((tok, errno)), Some(cur)) = (sh.armed_fault.get(), sh.cur_token.get()) {
            if tok == cur {
                sh.armed_fault.set(None);
                sh.fault_fired_in_step.set(Some((tok, errno)));
                sh.ctx(|ctx| {
                    ev!(ctx, "accept on token{tok} fails with errno {errno}");
                    ctx.bump(match errno {
                        libc::EMFILE => "fault.accept_EMFILE",
                        libc::ENFILE => "fault.accept_ENFILE",
                        libc::ENOBUFS => "fault.accept_ENOBUFS",
                        libc::ENOMEM => "fault.accept_ENOMEM",
                        libc::ECONNABORTED => "fault.accept_ECONNABORTED",
                        libc::ECONNRESET => "fault.accept_ECONNRESET",
                        libc::ECONNREFUSED => "fault.accept_ECONNREFUSED",
                        _ => "fault.accept_other",
                    });
                });
                return Some(io::Error::from_raw_os_error(errno));
            }
        }
        None
    }

    fn adopt_accept(&self, accept: SteppedAccept) {
        let sh = &self.0;
        *sh.token_of_listener.borrow_mut() = accept.listener_tokens();
        *sh.accept.borrow_mut() = Some(accept);
        sh.accept_alive.set(true);
        sh.ctx(|ctx| ev!(ctx, "accept loop adopted"));
    }

    fn adopt_worker(&self, idx: usize, worker: WorkerFuture) {
        let sh = &self.0;
        let slot = sh.current_slot.get().expect("WorkerStarting precedes adopt_worker");
        let mut ws = sh.workers.borrow_mut();
        assert_eq!(ws[slot].idx, idx);
        ws[slot].fut = Some(worker);
        ws[slot].flag.wake_flag();
        sh.current_slot.set(None);
    }

    fn before_accept_join(&self) {
        let sh = &self.0;
        sh.ctx(|ctx| ev!(ctx, "server joins the accept loop"));
        let mut n = 0;
        while sh.accept_alive.get() {
            crate::accept_step(sh, false, true);
            n += 1;
            if n > 1000 || sh.violated() {
                sh.violate(Violation::new(
                    "accept-never-stops",
                    "accept loop did not end after the server asked it to stop",
                ));
                // let the placeholder thread end so that the real join() returns
                *sh.accept.borrow_mut() = None;
                sh.accept_alive.set(false);
                break;
            }
        }
    }
}

pub trait WakeFlagExt {
    fn wake_flag(&self);
}
impl WakeFlagExt for Arc<WakeFlag> {
    fn wake_flag(&self) {
        std::task::Wake::wake_by_ref(self)
    }
}

// ------------------------------------------------------------------------------------------------
// harness services

pub trait PeerKey: 'static {
    fn peer_key(&self) -> String;
}

impl PeerKey for tokio::net::TcpStream {
    fn peer_key(&self) -> String {
        match (self.peer_addr(), self.local_addr()) {
            (Ok(p), Ok(l)) => format!("{p}>{l}"),
            _ => "?".into(),
        }
    }
}

impl PeerKey for tokio::net::UnixStream {
    fn peer_key(&self) -> String {
        self.peer_addr()
            .ok()
            .and_then(|a| a.as_pathname().map(|p| p.display().to_string()))
            .unwrap_or_else(|| "?".into())
    }
}

pub struct HFactory<S> {
    pub listener: usize,
    pub _p: PhantomData<fn(S)>,
}

impl<S> HFactory<S> {
    pub fn new(listener: usize) -> Self {
        HFactory { listener, _p: PhantomData }
    }
}

pub struct FactFut<S> {
    listener: usize,
    polls_left: u32,
    _p: PhantomData<fn(S)>,
}

impl<S: PeerKey> Future for FactFut<S> {
    type Output = Result<HService<S>, ()>;
    fn poll(mut self: Pin<&mut Self>, cx: &mut Context<'_>) -> Poll<Self::Output> {
        if self.polls_left > 0 {
            self.polls_left -= 1;
            cx.waker().wake_by_ref();
            return Poll::Pending;
        }
        let sh = shared();
        let slot = sh.current_slot.get().expect("service created outside a worker context");
        if sh.cfg.gated_restart && !sh.restart_gate_open.get() {
            // a re-creation (this worker already built a service for the listener) that takes as
            // long as the simulator wants
            let again = sh.instances.borrow().iter().any(|i| i.slot == slot && i.listener == self.listener);
            if again {
                sh.restart_gate_wakers.borrow_mut().push(cx.waker().clone());
                sh.ctx(|ctx| ctx.bump("probe.restart_waiting_at_gate"));
                return Poll::Pending;
            }
        }
        if sh.cfg.factory_fails_on_restart && !sh.draining.get() {
            // re-creation of a failed service (this worker already built one for the listener)
            let again = sh.instances.borrow().iter().any(|i| i.slot == slot && i.listener == self.listener);
            if again {
                let l = self.listener;
                sh.ctx(|ctx| {
                    ev!(ctx, "factory of l{l} fails to re-create its service on slot {slot}");
                    ctx.bump("fault.factory_fails_on_restart");
                });
                return Poll::Ready(Err(()));
            }
        }
        let inst = {
            let mut is = sh.instances.borrow_mut();
            is.push(Instance {
                slot,
                listener: self.listener,
                ready: sh.cfg.initial_ready(),
                waker: None,
                failed: false,
                polls: 0,
            });
            is.len() - 1
        };
        sh.svc_log.borrow_mut()[slot].push(SvcEv::NewService(inst, self.listener));
        let l = self.listener;
        sh.ctx(|ctx| ev!(ctx, "new_service i{inst} for l{l} on slot {slot}"));
        Poll::Ready(Ok(HService { inst, _p: PhantomData }))
    }
}

impl<S: PeerKey> ServiceFactory<S> for HFactory<S> {
    type Response = ();
    type Error = ();
    type Config = ();
    type Service = HService<S>;
    type InitError = ();
    type Future = FactFut<S>;

    fn new_service(&self, _: ()) -> Self::Future {
        let sh = shared();
        FactFut {
            listener: self.listener,
            polls_left: sh.factory_pending_polls.get(),
            _p: PhantomData,
        }
    }
}

pub struct HService<S> {
    inst: usize,
    _p: PhantomData<fn(S)>,
}

pub struct GateFut<S> {
    conn: usize,
    gate: Rc<Gate>,
    stream: Option<S>,
}

impl<S> Unpin for GateFut<S> {}

impl<S> Future for GateFut<S> {
    type Output = Result<(), ()>;
    fn poll(mut self: Pin<&mut Self>, cx: &mut Context<'_>) -> Poll<Self::Output> {
        if self.gate.open.get() {
            let sh = shared();
            let c = self.conn;
            self.stream.take();
            sh.conns.borrow_mut()[c].finished = true;
            sh.ctx(|ctx| {
                ev!(ctx, "finished c{c}");
                ctx.bump("finished");
            });
            Poll::Ready(Ok(()))
        } else {
            *self.gate.waker.borrow_mut() = Some(cx.waker().clone());
            Poll::Pending
        }
    }
}

impl<S: PeerKey> Service<S> for HService<S> {
    type Response = ();
    type Error = ();
    type Future = GateFut<S>;

    fn poll_ready(&self, cx: &mut Context<'_>) -> Poll<Result<(), ()>> {
        let sh = shared();
        let i = self.inst;
        let (slot, ready, failed) = {
            let mut is = sh.instances.borrow_mut();
            let r = &mut is[i];
            r.polls += 1;
            if r.ready == Ready::Pending {
                r.waker = Some(cx.waker().clone());
            }
            (r.slot, r.ready, r.failed)
        };
        sh.svc_log.borrow_mut()[slot].push(SvcEv::PollReady(i, ready));
        if sh.cfg.scripts {
            sh.ctx(|ctx| ev!(ctx, "poll_ready i{i} -> {ready:?}"));
        }
        if failed {
            sh.violate(Violation::new(
                "failed-service-reused",
                format!("service instance i{i} was polled again after its readiness check had failed"),
            ));
        }
        match ready {
            Ready::Ok => Poll::Ready(Ok(())),
            Ready::Pending => Poll::Pending,
            Ready::Err => {
                sh.instances.borrow_mut()[i].failed = true;
                sh.ctx(|ctx| ctx.bump("fault.readiness_error"));
                Poll::Ready(Err(()))
            }
        }
    }

    fn call(&self, stream: S) -> Self::Future {
        let sh = shared();
        let i = self.inst;
        let key = stream.peer_key();
        let c = sh.peers.borrow().get(&key).copied();
        let (slot, listener, failed) = {
            let is = sh.instances.borrow();
            (is[i].slot, is[i].listener, is[i].failed)
        };
        sh.svc_log.borrow_mut()[slot].push(SvcEv::Call(i));
        let Some(c) = c else {
            sh.violate(Violation::new("harness-unknown-peer", "service called with an unknown stream"));
            let gate = Rc::new(Gate { open: Cell::new(true), waker: RefCell::new(None) });
            return GateFut { conn: 0, gate, stream: Some(stream) };
        };
        sh.ctx(|ctx| {
            ev!(ctx, "call c{c} on i{i} (l{listener}, slot {slot})");
            ctx.bump("called");
        });
        sh.ls_dirty.set(true);
        let state = sh.workers.borrow()[slot].state;
        {
            let mut conns = sh.conns.borrow_mut();
            let r = &mut conns[c];
            r.calls += 1;
            r.call_seq = sh.next_seq();
            r.call_inst = Some(i);
            if r.calls > 1 {
                sh.violate(Violation::new("double-call", format!("connection c{c} was handed to a service twice")));
            }
            if r.listener != listener {
                sh.violate(
                    Violation::new(
                        "wrong-service",
                        format!("connection c{c} made to listener l{} was handed to the service of listener l{listener}", r.listener),
                    ),
                );
            }
            if r.owner != Some(slot) {
                sh.violate(Violation::new(
                    "wrong-worker",
                    format!("connection c{c} dispatched to slot {:?} was called on slot {slot}", r.owner),
                ));
            }
        }
        if state != SlotState::Running {
            sh.violate(Violation::new(
                "served-after-shutdown",
                format!("connection c{c} was served by worker slot {slot} after it had shut down"),
            ));
        }
        if failed {
            sh.violate(Violation::new(
                "failed-service-reused",
                format!("service instance i{i} was called after its readiness check had failed"),
            ));
        }
        if sh.stop_done.get() {
            sh.violate(Violation::new(
                "dispatch-after-stop",
                format!("connection c{c} was served after the stop had completed"),
            ));
        }
        crate::oracles::oracle_on_call(&sh, c, slot, i);
        if sh.panic_next_call.get() == Some(slot) {
            sh.panic_next_call.set(None);
            sh.conns.borrow_mut()[c].discarded = true;
            sh.ctx(|ctx| {
                ev!(ctx, "service call of c{c} panics");
                ctx.bump("fault.panic_in_call");
            });
            panic!("verif: injected service panic");
        }
        if sh.cfg.busy_after_call && sh.cfg.scripts && !sh.draining.get() {
            // a service that is not ready again right after it took a connection (back-pressure)
            let mut is = sh.instances.borrow_mut();
            if !is[i].failed && is[i].ready == Ready::Ok {
                is[i].ready = Ready::Pending;
                sh.svc_log.borrow_mut()[slot].push(SvcEv::Flip(i));
                sh.ctx(|ctx| {
                    ev!(ctx, "i{i} is busy after the call (readiness -> Pending)");
                    ctx.bump("probe.busy_after_call");
                });
            }
        }
        let gate = Rc::new(Gate { open: Cell::new(false), waker: RefCell::new(None) });
        sh.conns.borrow_mut()[c].gate = Some(gate.clone());
        GateFut { conn: c, gate, stream: Some(stream) }
    }
}
