//! srvsim — the whole actix-server (builder, Server future, accept loop, workers, waker queue,
//! availability, counters, stream services) stepped on ONE thread under a seeded scheduler, with
//! a paused tokio clock, real loopback/Unix sockets and a real epoll instance (C01–C08).

mod oracles;
mod world;

use std::{
    future::Future,
    io::Read,
    panic::{catch_unwind, AssertUnwindSafe},
    path::PathBuf,
    pin::Pin,
    rc::Rc,
    sync::Arc,
    task::{Context, Poll},
    time::Duration,
};

use actix_server::{Server, ServerHandle};
use serde::{Deserialize, Serialize};
use simcore::{
    ev,
    runner::hash_u64s,
    wake::{waker, WakeFlag},
    Chooser, Describe, Engine, Rng, RunCtx, Tier, Violation,
};
use tokio::task::LocalSet;
use world::*;

#[derive(Serialize, Deserialize, Clone, Debug, PartialEq)]
pub enum Lst {
    Tcp,
    Uds,
}

#[derive(Serialize, Deserialize, Clone, Debug)]
pub struct Config {
    pub workers: usize,
    pub listeners: Vec<Lst>,
    pub limit: usize,
    pub shutdown_timeout_s: u64,
    pub signals: bool,
    pub max_actions: usize,
    pub max_conns: usize,
    /// probability (in quarters) of worker-side progress inside the send→inc window
    pub race_q: u64,
    pub pause: bool,
    pub stop: bool,
    pub accept_faults: bool,
    pub kills: bool,
    pub scripts: bool,
    pub advance: bool,
    pub factory_polls: u32,
    pub w_connect: u32,
    pub w_release: u32,
    pub w_settle: u32,
    pub w_step: u32,
    #[serde(default)]
    pub bitset_only: bool,
    #[serde(default = "two")]
    pub max_kills: u32,
    /// ServerBuilder::system_exit(): the server also waits 300 ms after a stop before resolving
    #[serde(default)]
    pub system_exit: bool,
    /// readiness scripts may also fail (C07); otherwise they only flip between Ok and Pending
    #[serde(default = "yes")]
    pub script_errors: bool,
    /// size of a connection burst (0 = no bursts): that many clients connect to one listener
    /// before the accept loop runs again
    #[serde(default)]
    pub burst: usize,
    /// scripted services turn Pending by themselves right after each call
    #[serde(default)]
    pub busy_after_call: bool,
    /// a service factory fails when it is asked to re-create a failed service
    #[serde(default)]
    pub factory_fails_on_restart: bool,
    /// worker slots may be frozen (never polled: a worker thread stuck in a synchronous handler)
    #[serde(default)]
    pub freeze: bool,
    /// the re-creation of a failed service stays pending until the simulator opens a gate
    #[serde(default)]
    pub gated_restart: bool,
    /// order in which workers / max_concurrent_connections / shutdown_timeout are set (0..6)
    #[serde(default)]
    pub builder_order: u8,
}

fn yes() -> bool {
    true
}

fn two() -> u32 {
    2
}

impl Config {
    pub fn initial_ready(&self) -> Ready {
        Ready::Ok
    }
}

#[derive(Serialize, Deserialize, Clone, Debug, PartialEq)]
pub enum Action {
    Connect(usize),
    ConnectBurst(usize),
    ClientClose(usize),
    AcceptStep,
    AcceptExpire,
    AcceptSpurious,
    PollWorker(usize),
    PollServer,
    Tick,
    Release(usize),
    Settle,
    Pause,
    Resume,
    Stop(bool),
    DropStopFuture(usize),
    PollStopFuture(usize),
    Signal(i32),
    Advance(u64),
    InjectAcceptError(usize, i32),
    KillWorker(usize, bool),
    /// stop / resume polling a worker slot (its thread is stuck in a synchronous handler)
    FreezeWorker(usize),
    ThawWorker(usize),
    /// let pending service re-creations complete
    OpenRestartGate,
    ReadyFlip(usize, u8),
    /// nested actions inside dispatch window `.0` (the n-th successful send of the run)
    RacePoll(u64, usize),
    RaceRelease(u64, usize),
    RaceTick(u64),
    /// nested actions between "accept thread told to stop" and "workers told to stop"
    StopRaceAccept,
    StopRacePoll(usize),
    StopRaceTick,
    // Availability component check (C04)
    BitSet(usize, bool),
    BitGet(usize),
}

pub struct SrvSim;

fn main() {
    simcore::main_for::<SrvSim>()
}

pub struct Sim {
    pub sh: Rc<Shared>,
    pub local: LocalSet,
    pub ls_flag: Arc<WakeFlag>,
    pub server: Option<Pin<Box<Server>>>,
    pub server_flag: Arc<WakeFlag>,
    pub server_result: Option<bool>,
    pub handle: ServerHandle,
    pub addrs: Vec<ListenerAddr>,
    pub dir: PathBuf,
    pub start: tokio::time::Instant,
    pub stop_futs: Vec<StopFut>,
    pub paused_cmds: u32,
    /// acknowledgement futures of pause()/resume(): (future, is_pause)
    pub ack_futs: Vec<(Pin<Box<dyn Future<Output = ()>>>, bool)>,
    pub o: oracles::OracleState,
}

pub enum ListenerAddr {
    Tcp(std::net::SocketAddr),
    Uds(PathBuf),
}

pub struct StopFut {
    pub fut: Option<Pin<Box<dyn Future<Output = ()>>>>,
    pub flag: Arc<WakeFlag>,
    pub graceful: bool,
    pub issued_ms: u64,
    pub resolved_ms: Option<u64>,
    pub dropped: bool,
}

impl Sim {
    pub fn now_ms(&self) -> u64 {
        self.start.elapsed().as_millis() as u64
    }
}

/// Listener names in an order that is neither the binding order nor alphabetical.
fn listener_name(l: usize) -> String {
    format!("{}-l{l}", ["web", "admin", "metrics", "api"][l % 4])
}

fn epoll_readable(fd: i32) -> bool {
    let mut p = libc::pollfd { fd, events: libc::POLLIN, revents: 0 };
    // SAFETY: plain poll(2) on one valid descriptor with zero timeout.
    let r = unsafe { libc::poll(&mut p, 1, 0) };
    r > 0 && (p.revents & libc::POLLIN) != 0
}

pub fn accept_ready(sh: &Shared) -> bool {
    if !sh.accept_alive.get() {
        return false;
    }
    match sh.accept.try_borrow() {
        Ok(a) => a.as_ref().map_or(false, |a| epoll_readable(a.epoll_fd())),
        Err(_) => false,
    }
}

/// One iteration of the real accept loop. `nested` = called from inside the server's Stop handler.
pub fn accept_step(sh: &Rc<Shared>, expire: bool, nested: bool) {
    let Some(mut acc) = sh.accept.borrow_mut().take() else { return };
    if !expire && acc.timeout().is_none() && !epoll_readable(acc.epoll_fd()) {
        // the real thread would sleep in poll() here: nothing is queued for it and no timeout is
        // armed. Stepping it would block this (single) simulator thread for good.
        sh.ctx(|ctx| {
            ev!(ctx, "accept step skipped: the loop would sleep in poll (nested={nested})");
            ctx.bump("accept_steps_skipped_asleep");
        });
        *sh.accept.borrow_mut() = Some(acc);
        return;
    }
    let paused_before = acc.paused();
    let timeout_before = acc.timeout();
    sh.paused_at_step_begin.set(paused_before);
    sh.expect_removed.set(None);
    sh.accepted_in_step.set(0);
    sh.accept_one_iters.set(0);
    sh.fault_fired_in_step.set(None);
    sh.cur_conn.set(None);
    sh.in_accept_step.set(true);
    sh.ctx(|ctx| {
        ev!(ctx, "accept step expire={expire} nested={nested}");
        ctx.bump("accept_steps");
    });
    let res = catch_unwind(AssertUnwindSafe(|| acc.step(expire)));
    sh.in_accept_step.set(false);
    match res {
        Ok(alive) => {
            oracles::after_accept_step(sh, &acc, paused_before, timeout_before);
            if alive {
                *sh.accept.borrow_mut() = Some(acc);
            } else {
                sh.accept_alive.set(false);
                sh.ctx(|ctx| ev!(ctx, "accept loop ended"));
                drop(acc); // closes the listeners, ends the placeholder thread
            }
        }
        Err(p) => {
            let msg = p
                .downcast_ref::<&str>()
                .map(|s| s.to_string())
                .or_else(|| p.downcast_ref::<String>().cloned())
                .unwrap_or_default();
            sh.accept_alive.set(false);
            if msg.contains(SPIN_MARK) {
                sh.violate(Violation::new(
                    "accept-spin",
                    "accept_one iterated more than 10000 times for one connection without dispatching it",
                ));
            } else {
                sh.violate(Violation::new("accept-panic", format!("the accept loop panicked: {msg}")));
            }
            // release the listeners (ports, descriptors) of the dead loop: thousands of violating
            // runs in one process would otherwise exhaust both and make later runs depend on it
            let _ = catch_unwind(AssertUnwindSafe(move || drop(acc)));
        }
    }
}

pub fn poll_worker(sh: &Rc<Shared>, slot: usize) {
    let (fut, flag, idx) = {
        let mut ws = sh.workers.borrow_mut();
        let w = &mut ws[slot];
        if w.state != SlotState::Running {
            return;
        }
        w.polls += 1;
        (w.fut.take(), w.flag.clone(), w.idx)
    };
    let Some(mut fut) = fut else { return };
    flag.reset();
    let wk = waker(&flag);
    let mut cx = Context::from_waker(&wk);
    let prev = sh.current_slot.replace(Some(slot));
    sh.ctx(|ctx| {
        ev!(ctx, "poll worker w{idx}#{slot}");
        ctx.bump("worker_polls");
    });
    if let Some(l) = sh.svc_log.borrow_mut().get_mut(slot) {
        l.push(crate::world::SvcEv::PollBegin);
    }
    let res = catch_unwind(AssertUnwindSafe(|| fut.as_mut().poll(&mut cx)));
    sh.current_slot.set(prev);
    match res {
        Ok(Poll::Pending) => {
            sh.workers.borrow_mut()[slot].fut = Some(fut);
        }
        Ok(Poll::Ready(())) => {
            sh.ctx(|ctx| ev!(ctx, "worker w{idx}#{slot} finished"));
            drop(fut);
            sh.workers.borrow_mut()[slot].state = SlotState::Done;
            discard_queued(sh, slot);
        }
        Err(_) => {
            sh.ctx(|ctx| ev!(ctx, "worker w{idx}#{slot} died (panic)"));
            drop(fut);
            sh.workers.borrow_mut()[slot].state = SlotState::Killed;
            discard_queued(sh, slot);
        }
    }
}

/// Connections dispatched to a worker that ended before taking them are released with it.
fn discard_queued(sh: &Rc<Shared>, slot: usize) {
    for c in sh.conns.borrow_mut().iter_mut() {
        if c.owner == Some(slot) && c.calls == 0 {
            c.discarded = true;
        }
    }
}

pub fn kill_worker(sh: &Rc<Shared>, slot: usize) {
    let fut = {
        let mut ws = sh.workers.borrow_mut();
        ws[slot].state = SlotState::Killed;
        ws[slot].fut.take()
    };
    drop(fut);
    discard_queued(sh, slot);
}

impl Sim {
    pub fn tick(&mut self) {
        self.sh.ls_dirty.set(false);
        self.ls_flag.reset();
        let wk = waker(&self.ls_flag);
        let mut cx = Context::from_waker(&wk);
        self.sh.ctx(|ctx| ctx.bump("ticks"));
        let _ = Pin::new(&mut self.local).poll(&mut cx);
    }

    pub fn ls_runnable(&self) -> bool {
        self.sh.ls_dirty.get() || self.ls_flag.fired()
    }

    pub fn poll_server(&mut self) {
        let Some(mut s) = self.server.take() else { return };
        self.server_flag.reset();
        let wk = waker(&self.server_flag);
        let mut cx = Context::from_waker(&wk);
        self.sh.ctx(|ctx| {
            ev!(ctx, "poll server");
            ctx.bump("server_polls");
        });
        let res = catch_unwind(AssertUnwindSafe(|| s.as_mut().poll(&mut cx)));
        match res {
            Ok(Poll::Pending) => self.server = Some(s),
            Ok(Poll::Ready(r)) => {
                let t = self.now_ms();
                self.sh.ctx(|ctx| ev!(ctx, "server future resolved ok={} at {t}ms", r.is_ok()));
                self.server_result = Some(r.is_ok());
                self.o.t_server_done = Some(t);
                drop(s);
            }
            Err(p) => {
                let msg = p
                    .downcast_ref::<&str>()
                    .map(|s| s.to_string())
                    .or_else(|| p.downcast_ref::<String>().cloned())
                    .unwrap_or_default();
                self.sh.violate(Violation::new("server-panic", format!("the Server future panicked: {msg}")));
                std::mem::forget(s);
            }
        }
    }

    pub fn poll_stop_fut(&mut self, i: usize) {
        let now = self.now_ms();
        let sf = &mut self.stop_futs[i];
        let Some(f) = sf.fut.as_mut() else { return };
        sf.flag.reset();
        let wk = waker(&sf.flag);
        let mut cx = Context::from_waker(&wk);
        let polled = catch_unwind(AssertUnwindSafe(|| f.as_mut().poll(&mut cx)));
        let Ok(polled) = polled else {
            sf.fut = None;
            self.sh.violate(Violation::new("stop-future-panicked", format!("the future returned by stop() number {i} panicked when polled")));
            return;
        };
        if polled.is_ready() {
            sf.fut = None;
            sf.resolved_ms = Some(now);
            let g = sf.graceful;
            self.sh.ctx(|ctx| ev!(ctx, "stop future {i} (graceful={g}) resolved at {now}ms"));
            oracles::on_stop_resolved(self, i);
        }
    }

    pub fn release(&mut self, c: usize) {
        let gate = self.sh.conns.borrow()[c].gate.clone();
        if let Some(g) = gate {
            if !g.open.get() {
                g.open.set(true);
                if let Some(w) = g.waker.borrow_mut().take() {
                    w.wake();
                }
                self.sh.ls_dirty.set(true);
                self.sh.ctx(|ctx| ev!(ctx, "release c{c}"));
            }
        }
    }

    pub fn connect(&mut self, l: usize, probe: bool) -> Result<usize, std::io::Error> {
        let id = self.sh.conns.borrow().len();
        if !self.sh.accept_alive.get() {
            return Err(std::io::Error::new(std::io::ErrorKind::NotConnected, "listeners are closed"));
        }
        let (stream, key) = match &self.addrs[l] {
            ListenerAddr::Tcp(a) => {
                let s = std::net::TcpStream::connect(a)?;
                // abortive close: no TIME_WAIT sockets pile up over hundreds of thousands of runs
                socket2::SockRef::from(&s).set_linger(Some(Duration::ZERO))?;
                let key = format!("{}>{}", s.local_addr()?, s.peer_addr()?);
                (ClientStream::Tcp(s), key)
            }
            ListenerAddr::Uds(p) => {
                let path = self.dir.join(format!("c{id}.sock"));
                let _ = std::fs::remove_file(&path);
                let sock = socket2::Socket::new(socket2::Domain::UNIX, socket2::Type::STREAM, None)?;
                sock.bind(&socket2::SockAddr::unix(&path)?)?;
                sock.connect(&socket2::SockAddr::unix(p)?)?;
                let s: std::os::unix::net::UnixStream = sock.into();
                (ClientStream::Uds(s), path.display().to_string())
            }
        };
        self.sh.peers.borrow_mut().insert(key, id);
        self.sh.conns.borrow_mut().push(ConnRec {
            listener: l,
            stream: Some(stream),
            client_closed: false,
            probe,
            accepted: false,
            accepted_seq: 0,
            owner: None,
            dispatch_seq: 0,
            send_failed: 0,
            calls: 0,
            call_seq: 0,
            call_inst: None,
            finished: false,
            discarded: false,
            gate: None,
        });
        self.sh.ctx(|ctx| {
            ev!(ctx, "connect c{id} -> l{l} probe={probe}");
            ctx.bump("connects");
        });
        Ok(id)
    }

    /// Has the server side closed this connection (EOF / reset seen by the client)?
    pub fn closed_by_server(&self, c: usize) -> bool {
        let mut conns = self.sh.conns.borrow_mut();
        let Some(s) = conns[c].stream.as_mut() else { return false };
        let mut b = [0u8; 1];
        let r = match s {
            ClientStream::Tcp(s) => {
                let _ = s.set_nonblocking(true);
                s.read(&mut b)
            }
            ClientStream::Uds(s) => {
                let _ = s.set_nonblocking(true);
                s.read(&mut b)
            }
        };
        match r {
            Ok(0) => true,
            Ok(_) => false,
            Err(e) if e.kind() == std::io::ErrorKind::WouldBlock => false,
            Err(_) => true,
        }
    }

    /// Run every enabled internal action, in a fixed order, until none is enabled.
    pub fn settle(&mut self) {
        let mut n = 0;
        loop {
            if self.sh.violated() {
                return;
            }
            let mut did = false;
            if self.server.is_some() && self.server_flag.fired() {
                self.poll_server();
                did = true;
            }
            if accept_ready(&self.sh) {
                accept_step(&self.sh, false, false);
                did = true;
            }
            let nslots = self.sh.workers.borrow().len();
            for s in 0..nslots {
                let run = {
                    let ws = self.sh.workers.borrow();
                    ws[s].state == SlotState::Running && ws[s].fut.is_some() && ws[s].flag.fired() && !ws[s].frozen
                };
                if run {
                    poll_worker(&self.sh, s);
                    did = true;
                }
            }
            if self.ls_runnable() {
                self.tick();
                did = true;
            }
            for i in 0..self.stop_futs.len() {
                if self.stop_futs[i].fut.is_some() && self.stop_futs[i].flag.fired() {
                    self.poll_stop_fut(i);
                    did = true;
                }
            }
            if !did {
                break;
            }
            n += 1;
            if n > 5000 {
                self.sh.violate(Violation::new("livelock", "internal actions never reach quiescence (5000 rounds)"));
                return;
            }
        }
        self.sh.ctx(|ctx| ctx.bump("settles"));
        oracles::at_quiescence(self);
    }

    pub async fn advance(&mut self, ms: u64) {
        tokio::time::advance(Duration::from_millis(ms)).await;
        tokio::task::yield_now().await;
        let now = self.now_ms();
        self.sh.ctx(|ctx| ev!(ctx, "advance {ms}ms -> {now}ms"));
    }
}

fn errno_name(e: i32) -> &'static str {
    match e {
        libc::EMFILE => "EMFILE",
        libc::ENFILE => "ENFILE",
        libc::ENOBUFS => "ENOBUFS",
        libc::ENOMEM => "ENOMEM",
        libc::ECONNABORTED => "ECONNABORTED",
        libc::ECONNRESET => "ECONNRESET",
        libc::ECONNREFUSED => "ECONNREFUSED",
        _ => "E?",
    }
}

pub const BACKOFF_ERRNOS: [i32; 4] = [libc::EMFILE, libc::ENFILE, libc::ENOBUFS, libc::ENOMEM];
pub const CONN_ERRNOS: [i32; 3] = [libc::ECONNABORTED, libc::ECONNRESET, libc::ECONNREFUSED];

fn enabled_actions(sim: &Sim) -> Vec<(Action, u32)> {
    let sh = &sim.sh;
    let cfg = &sh.cfg;
    let mut en: Vec<(Action, u32)> = Vec::new();
    let nconns = sh.conns.borrow().len();
    let server_running = sim.server.is_some();
    // external stimuli
    // never connect once our listeners are closed: the port may already belong to a listener of
    // another simulation process
    if nconns < cfg.max_conns && !sh.stop_done.get() && sim.o.t_server_done.is_none() && sh.accept_alive.get() {
        for l in 0..cfg.listeners.len() {
            if !sim.o.listener_unreachable[l] {
                en.push((Action::Connect(l), cfg.w_connect));
                if cfg.burst > 0 && nconns + cfg.burst <= cfg.max_conns {
                    en.push((Action::ConnectBurst(l), cfg.w_connect));
                }
            }
        }
    }
    {
        let conns = sh.conns.borrow();
        for (c, r) in conns.iter().enumerate() {
            if let Some(g) = &r.gate {
                if !g.open.get() {
                    en.push((Action::Release(c), cfg.w_release));
                }
            }
            if cfg.pause && r.stream.is_some() && !r.client_closed && !r.accepted && c % 3 == 2 {
                en.push((Action::ClientClose(c), 1));
            }
        }
    }
    // internal
    if server_running && sim.server_flag.fired() {
        en.push((Action::PollServer, cfg.w_step * 2));
    }
    if accept_ready(sh) {
        en.push((Action::AcceptStep, cfg.w_step * 2));
    }
    if sh.accept_alive.get() {
        let (to, _paused) = {
            let a = sh.accept.borrow();
            let a = a.as_ref().unwrap();
            (a.timeout(), a.paused())
        };
        if to.is_some() && cfg.advance {
            en.push((Action::AcceptExpire, 3));
        }
        if cfg.accept_faults || cfg.pause {
            en.push((Action::AcceptSpurious, 1));
        }
    }
    {
        let ws = sh.workers.borrow();
        for (s, w) in ws.iter().enumerate() {
            if w.state == SlotState::Running && w.fut.is_some() {
                if w.flag.fired() && !w.frozen {
                    en.push((Action::PollWorker(s), cfg.w_step));
                }
                if cfg.freeze {
                    en.push((if w.frozen { Action::ThawWorker(s) } else { Action::FreezeWorker(s) }, 1));
                }
                if cfg.kills && sim.o.kills < sim.o.max_kills && sh.accept_alive.get() && !sim.o.stop_issued {
                    en.push((Action::KillWorker(s, false), 1));
                    en.push((Action::KillWorker(s, true), 1));
                }
            }
        }
    }
    if sim.ls_runnable() {
        en.push((Action::Tick, cfg.w_step));
    }
    for (i, f) in sim.stop_futs.iter().enumerate() {
        if f.fut.is_some() {
            if f.flag.fired() {
                en.push((Action::PollStopFuture(i), 2));
            }
            if f.resolved_ms.is_none() && !f.dropped {
                en.push((Action::DropStopFuture(i), 1));
            }
        }
    }
    en.push((Action::Settle, cfg.w_settle));
    // commands
    if server_running && sh.accept_alive.get() {
        if cfg.pause && sim.paused_cmds < 8 {
            en.push((Action::Pause, 2));
            en.push((Action::Resume, 2));
        }
        // A signal and a stop command in the same run would make "which stop is the effective one"
        // depend on the multiplexer's poll order rather than on the order of issue; the two ways of
        // stopping are therefore explored in separate runs.
        if cfg.stop && sim.stop_futs.len() < 3 && !sim.o.signal_raised {
            en.push((Action::Stop(true), 1));
            en.push((Action::Stop(false), 1));
            if cfg.signals && !sim.o.stop_issued {
                en.push((Action::Signal(libc::SIGTERM), 1));
                en.push((Action::Signal(libc::SIGINT), 1));
                en.push((Action::Signal(libc::SIGQUIT), 1));
            }
        }
    }
    if cfg.stop && !server_running && sim.stop_futs.len() < 4 && sim.o.late_stops < 2 {
        // the server has ended; a stop issued now has nobody to answer it and must still resolve
        en.push((Action::Stop(true), 1));
        en.push((Action::Stop(false), 1));
    }
    if cfg.advance {
        for ms in [1u64, 100, 499, 500, 510, 1000] {
            en.push((Action::Advance(ms), 1));
        }
        if cfg.stop && cfg.shutdown_timeout_s < 1000 {
            en.push((Action::Advance(cfg.shutdown_timeout_s * 1000), 1));
        }
    }
    if cfg.gated_restart && !sh.restart_gate_open.get() && !sh.restart_gate_wakers.borrow().is_empty() {
        en.push((Action::OpenRestartGate, 1));
    }
    if cfg.accept_faults && sh.armed_fault.get().is_none() && sh.accept_alive.get() && sim.o.faults_injected < 6 {
        for l in 0..cfg.listeners.len() {
            let pending = oracles::waiting_on(sh, l) > 0;
            for e in BACKOFF_ERRNOS {
                en.push((Action::InjectAcceptError(l, e), if pending { 2 } else { 1 }));
            }
            if pending {
                for e in CONN_ERRNOS {
                    en.push((Action::InjectAcceptError(l, e), 2));
                }
            }
        }
    }
    if cfg.scripts {
        let is = sh.instances.borrow();
        let ws = sh.workers.borrow();
        for (i, inst) in is.iter().enumerate() {
            if inst.failed || ws[inst.slot].state != SlotState::Running {
                continue;
            }
            for (code, r) in [(0u8, Ready::Ok), (1, Ready::Pending), (2, Ready::Err)] {
                if r == Ready::Err && !cfg.script_errors {
                    continue;
                }
                if inst.ready != r && !(r == Ready::Err && sim.o.ready_errs >= 3) {
                    en.push((Action::ReadyFlip(i, code), if r == Ready::Ok { 4 } else { 2 }));
                }
            }
        }
    }
    en
}

fn race_window(sh: &Rc<Shared>) {
    let win = sh.dispatch_log.borrow().len() as u64;
    // nested choice inside Accept::send_connection, between the channel send and the counter
    // increment: worker-side progress the real (multi-threaded) server may make here.
    if sh.cfg.race_q == 0 {
        return;
    }
    for _ in 0..4 {
        let mut en: Vec<(Action, u32)> = Vec::new();
        {
            let ws = sh.workers.borrow();
            for (s, w) in ws.iter().enumerate() {
                if w.state == SlotState::Running && w.fut.is_some() && w.flag.fired() {
                    en.push((Action::RacePoll(win, s), 3));
                }
            }
        }
        {
            let conns = sh.conns.borrow();
            for (c, r) in conns.iter().enumerate() {
                if let Some(g) = &r.gate {
                    if !g.open.get() {
                        en.push((Action::RaceRelease(win, c), 2));
                    }
                }
            }
        }
        if sh.ls_dirty.get() {
            en.push((Action::RaceTick(win), 4));
        }
        let q = sh.cfg.race_q;
        let Some(a) = sh.chooser(|ch| ch.choose_nested(&en, q, 4)) else { return };
        sh.ctx(|ctx| ctx.bump("probe.race_window_progress"));
        match a {
            Action::RacePoll(_, s) => poll_worker(sh, s),
            Action::RaceRelease(_, c) => {
                let gate = sh.conns.borrow()[c].gate.clone();
                if let Some(g) = gate {
                    g.open.set(true);
                    if let Some(w) = g.waker.borrow_mut().take() {
                        w.wake();
                    }
                    sh.ls_dirty.set(true);
                    sh.ctx(|ctx| ev!(ctx, "race: release c{c}"));
                }
            }
            Action::RaceTick(_) => {
                RACE_TICK.with(|t| {
                    if let Some(f) = t.borrow().as_ref() {
                        f();
                    }
                });
            }
            _ => {}
        }
        if sh.violated() {
            return;
        }
    }
}

/// Worker-side progress at a point where the accept loop does not hold the waker-queue lock
/// although it is about to reset the queue (only reachable when that code is changed).
pub fn drain_window(sh: &Rc<Shared>) {
    let n = sh.drain_windows.get() + 1;
    sh.drain_windows.set(n);
    let win = (1u64 << 40) + n;
    for _ in 0..4 {
        let mut en: Vec<(Action, u32)> = Vec::new();
        {
            let conns = sh.conns.borrow();
            for (c, r) in conns.iter().enumerate() {
                if let Some(g) = &r.gate {
                    if !g.open.get() {
                        en.push((Action::RaceRelease(win, c), 3));
                    }
                }
            }
        }
        if sh.ls_dirty.get() {
            en.push((Action::RaceTick(win), 6));
        }
        let Some(a) = sh.chooser(|ch| ch.choose_nested(&en, 3, 4)) else { return };
        match a {
            Action::RaceRelease(_, c) => {
                let gate = sh.conns.borrow()[c].gate.clone();
                if let Some(g) = gate {
                    g.open.set(true);
                    if let Some(w) = g.waker.borrow_mut().take() {
                        w.wake();
                    }
                    sh.ls_dirty.set(true);
                    sh.ctx(|ctx| ev!(ctx, "drain window: release c{c}"));
                }
            }
            Action::RaceTick(_) => RACE_TICK.with(|t| {
                if let Some(f) = t.borrow().as_ref() {
                    f();
                }
            }),
            _ => {}
        }
    }
}

/// The accept thread and the workers run concurrently with the server's Stop handler: between
/// its wake-up of the accept thread and its messages to the workers anything may happen.
pub fn stop_window(sh: &Rc<Shared>) {
    if sh.cfg.race_q == 0 {
        return;
    }
    for _ in 0..6 {
        let mut en: Vec<(Action, u32)> = Vec::new();
        if accept_ready(sh) {
            en.push((Action::StopRaceAccept, 4));
        }
        {
            let ws = sh.workers.borrow();
            for (s, w) in ws.iter().enumerate() {
                if w.state == SlotState::Running && w.fut.is_some() && w.flag.fired() {
                    en.push((Action::StopRacePoll(s), 3));
                }
            }
        }
        if sh.ls_dirty.get() {
            en.push((Action::StopRaceTick, 1));
        }
        let q = sh.cfg.race_q;
        let Some(a) = sh.chooser(|ch| ch.choose_nested(&en, q, 4)) else { return };
        sh.ctx(|ctx| ctx.bump("probe.stop_window_progress"));
        match a {
            Action::StopRaceAccept => accept_step(sh, false, true),
            Action::StopRacePoll(s) => poll_worker(sh, s),
            Action::StopRaceTick => RACE_TICK.with(|t| {
                if let Some(f) = t.borrow().as_ref() {
                    f();
                }
            }),
            _ => {}
        }
        if sh.violated() {
            return;
        }
    }
}

thread_local! {
    // the LocalSet lives in `Sim`; the nested race window reaches it through this raw handle
    static RACE_TICK: std::cell::RefCell<Option<Box<dyn Fn()>>> = const { std::cell::RefCell::new(None) };
}

async fn sim_main(sh: Rc<Shared>) -> Option<Violation> {
    let cfg = sh.cfg.clone();
    let prop = sh.prop.clone();
    let local = LocalSet::new();
    let _enter = local.enter();
    let root = simcore::runner::verif_root();
    let dir = root
        .join("sim/target/uds")
        .join(format!("{}", std::process::id()));
    thread_local! {
        static DIR_MADE: std::cell::Cell<bool> = const { std::cell::Cell::new(false) };
    }
    if !DIR_MADE.with(|d| d.replace(true)) {
        let _ = std::fs::create_dir_all(&dir);
    }
    sh.factory_pending_polls.set(0);

    // listeners are created by the simulator and handed to the real builder
    // the three settings are independent of each other: any call order gives the same server
    let mut builder = Server::build();
    let order: [u8; 3] = [[0, 1, 2], [0, 2, 1], [1, 0, 2], [1, 2, 0], [2, 0, 1], [2, 1, 0]][cfg.builder_order as usize % 6];
    for step in order {
        builder = match step {
            0 => builder.workers(cfg.workers),
            1 => builder.max_concurrent_connections(cfg.limit),
            _ => builder.shutdown_timeout(cfg.shutdown_timeout_s),
        };
    }
    if !cfg.signals {
        builder = builder.disable_signals();
    }
    if cfg.system_exit {
        builder = builder.system_exit();
    }
    let mut addrs = Vec::new();
    for (l, kind) in cfg.listeners.iter().enumerate() {
        match kind {
            Lst::Tcp => {
                let lst = std::net::TcpListener::bind("127.0.0.1:0").expect("bind");
                addrs.push(ListenerAddr::Tcp(lst.local_addr().unwrap()));
                builder = builder
                    .listen(listener_name(l), lst, move || HFactory::<tokio::net::TcpStream>::new(l))
                    .expect("listen");
            }
            Lst::Uds => {
                let path = dir.join(format!("l{l}.sock"));
                let _ = std::fs::remove_file(&path);
                let lst = std::os::unix::net::UnixListener::bind(&path).expect("bind uds");
                addrs.push(ListenerAddr::Uds(path));
                builder = builder
                    .listen_uds(listener_name(l), lst, move || HFactory::<tokio::net::UnixStream>::new(l))
                    .expect("listen_uds");
            }
        }
    }
    let server = builder.run();
    let handle = server.handle();
    let server_flag = WakeFlag::new(1000);
    server_flag.wake_flag();

    let mut sim = Sim {
        sh: sh.clone(),
        local,
        ls_flag: WakeFlag::new(1001),
        server: Some(Box::pin(server)),
        server_flag,
        server_result: None,
        handle,
        addrs,
        dir,
        start: tokio::time::Instant::now(),
        stop_futs: Vec::new(),
        paused_cmds: 0,
        ack_futs: Vec::new(),
        o: oracles::OracleState::new(&cfg, &prop),
    };

    // nested race window: needs to tick the LocalSet owned by `sim`
    let sim_ptr: *mut Sim = &mut sim;
    RACE_TICK.with(|t| {
        *t.borrow_mut() = Some(Box::new(move || {
            // SAFETY: `sim` outlives the run; the race window is only entered from an accept step,
            // during which no other reference into `sim.local` is live (accept steps never run
            // inside a LocalSet tick).
            unsafe { (*sim_ptr).tick() }
        }));
    });
    *sh.race_hook.borrow_mut() = Some(Box::new(race_window));

    // start-up is deterministic and not part of the explored schedule: the first poll of the
    // Server future builds the accept loop and the workers (through the hooks)
    sim.poll_server();
    if cfg.factory_polls > 0 {
        sh.factory_pending_polls.set(cfg.factory_polls);
    }

    let mut last_was_settle = false;
    loop {
        if sh.violated() {
            break;
        }
        let en = enabled_actions(&sim);
        if en.len() == 1 && last_was_settle {
            break; // nothing but another Settle is possible: the program is over
        }
        let Some(a) = sh.chooser(|ch| ch.choose(&en)) else { break };
        last_was_settle = a == Action::Settle;
        exec_action(&mut sim, a).await;
        oracles::after_action(&mut sim);
        sim.o.record_state(&sim.sh, &mut sim_state_hash(&sim));
    }

    if !sh.violated() {
        oracles::drain_and_final(&mut sim).await;
    }

    // tear-down inside the runtime, in a fixed order
    RACE_TICK.with(|t| *t.borrow_mut() = None);
    *sh.race_hook.borrow_mut() = None;
    let ms = sim.now_ms();
    sh.ctx(|ctx| ctx.sim_ms = ms);
    sim.server = None;
    sim.ack_futs.clear();
    sim.stop_futs.clear();
    *sh.accept.borrow_mut() = None;
    for w in sh.workers.borrow_mut().iter_mut() {
        w.fut = None;
    }
    for c in sh.conns.borrow_mut().iter_mut() {
        c.stream = None;
        c.gate = None;
    }
    let v = sh.violation.borrow_mut().take();
    // client socket files of this run (listener paths are unlinked by the server); the directory
    // itself is per process and stays (creating and removing it for every run is far too slow)
    if cfg.listeners.contains(&Lst::Uds) {
        for c in 0..sh.conns.borrow().len() {
            let _ = std::fs::remove_file(sim.dir.join(format!("c{c}.sock")));
        }
    }
    drop(_enter);
    drop(sim);
    v
}

fn sim_state_hash(sim: &Sim) -> u64 {
    let sh = &sim.sh;
    let mut xs: Vec<u64> = Vec::new();
    {
        let ws = sh.workers.borrow();
        for (s, w) in ws.iter().enumerate() {
            xs.push(w.state as u64 * 64 + sh.in_progress(s) as u64 * 4 + w.flag.fired() as u64);
        }
    }
    if let Ok(a) = sh.accept.try_borrow() {
        if let Some(a) = a.as_ref() {
            xs.push(a.paused() as u64 * 2 + a.timeout().is_some() as u64);
            for i in a.handle_idxs() {
                xs.push(100 + i as u64 * 2 + a.available(i) as u64);
            }
            xs.push(a.waker_queue_len() as u64);
        }
    }
    for l in 0..sh.cfg.listeners.len() {
        xs.push(oracles::waiting_on(sh, l) as u64);
    }
    xs.push(sim.server.is_some() as u64);
    hash_u64s(&xs)
}

async fn exec_action(sim: &mut Sim, a: Action) {
    let sh = sim.sh.clone();
    match a {
        Action::Connect(l) => match sim.connect(l, false) {
            Ok(_) => {}
            Err(e) => {
                sh.ctx(|ctx| ev!(ctx, "connect to l{l} failed: {:?}", e.kind()));
                oracles::on_connect_failed(sim, l, &e);
            }
        },
        Action::ConnectBurst(l) => {
            let mut made = 0;
            for _ in 0..sh.cfg.burst {
                match sim.connect(l, false) {
                    Ok(_) => made += 1,
                    Err(e) => {
                        oracles::on_connect_failed(sim, l, &e);
                        break;
                    }
                }
            }
            sh.ctx(|ctx| {
                ev!(ctx, "burst of {made} connections to l{l}");
                ctx.bump("probe.connection_burst");
            });
        }
        Action::ClientClose(c) => {
            let mut conns = sh.conns.borrow_mut();
            // orderly half-close (FIN), so that the queued connection keeps its identity when it
            // is accepted; the socket itself is kept until the end of the run and then closed
            // abortively like every other client socket (no TIME_WAIT entry is left behind)
            match &conns[c].stream {
                Some(ClientStream::Tcp(s)) => {
                    let _ = s.shutdown(std::net::Shutdown::Write);
                }
                Some(ClientStream::Uds(s)) => {
                    let _ = s.shutdown(std::net::Shutdown::Write);
                }
                None => {}
            }
            conns[c].client_closed = true;
            drop(conns);
            sh.ctx(|ctx| ev!(ctx, "client closes c{c}"));
        }
        Action::AcceptStep => accept_step(&sh, false, false),
        Action::AcceptExpire => {
            let to = sh.accept.borrow().as_ref().and_then(|a| a.timeout());
            if let Some(d) = to {
                sim.advance(d.as_millis() as u64).await;
                accept_step(&sh, true, false);
            }
        }
        Action::AcceptSpurious => accept_step(&sh, true, false),
        Action::PollWorker(s) => poll_worker(&sh, s),
        Action::PollServer => sim.poll_server(),
        Action::Tick => sim.tick(),
        Action::Release(c) => sim.release(c),
        Action::Settle => sim.settle(),
        Action::Pause => {
            sim.paused_cmds += 1;
            let f = sim.handle.pause();
            sim.o.last_pause_cmd = Some(true);
            sim.ack_futs.push((Box::pin(f), true));
            sh.ctx(|ctx| {
                ev!(ctx, "cmd pause");
                ctx.bump("cmd.pause");
            });
        }
        Action::Resume => {
            sim.paused_cmds += 1;
            let f = sim.handle.resume();
            sim.o.last_pause_cmd = Some(false);
            sim.ack_futs.push((Box::pin(f), false));
            sh.ctx(|ctx| {
                ev!(ctx, "cmd resume");
                ctx.bump("cmd.resume");
            });
        }
        Action::Stop(graceful) => {
            let fut = sim.handle.stop(graceful);
            let now = sim.now_ms();
            let flag = WakeFlag::new(2000 + sim.stop_futs.len() as u64);
            flag.wake_flag();
            sim.stop_futs.push(StopFut {
                fut: Some(Box::pin(fut)),
                flag,
                graceful,
                issued_ms: now,
                resolved_ms: None,
                dropped: false,
            });
            sh.ctx(|ctx| {
                ev!(ctx, "cmd stop graceful={graceful} at {now}ms");
                ctx.bump(if graceful { "cmd.stop_graceful" } else { "cmd.stop_forced" });
            });
            if sim.server.is_none() {
                sim.o.late_stops += 1;
                sh.ctx(|ctx| ctx.bump("probe.stop_after_server_end"));
            }
            oracles::on_stop_issued(sim, graceful, false);
        }
        Action::DropStopFuture(i) => {
            sim.stop_futs[i].fut = None;
            sim.stop_futs[i].dropped = true;
            sh.ctx(|ctx| {
                ev!(ctx, "stop future {i} dropped unresolved");
                ctx.bump("probe.stop_future_dropped");
            });
        }
        Action::PollStopFuture(i) => sim.poll_stop_fut(i),
        Action::Signal(sig) => {
            sim.o.signal_raised = true;
            // SAFETY: raising a signal for which tokio's handler is installed (signals enabled).
            unsafe { libc::raise(sig) };
            tokio::task::yield_now().await;
            tokio::task::yield_now().await;
            sh.ctx(|ctx| {
                ev!(ctx, "signal {sig}");
                ctx.bump("cmd.signal");
            });
            oracles::on_stop_issued(sim, sig == libc::SIGTERM, true);
        }
        Action::Advance(ms) => sim.advance(ms).await,
        Action::InjectAcceptError(l, errno) => {
            let tok = sh.token_of_listener.borrow().get(l).copied().unwrap_or(l);
            sh.armed_fault.set(Some((tok, errno)));
            sim.o.faults_injected += 1;
            sh.ctx(|ctx| ev!(ctx, "arm accept error {} on l{l}", errno_name(errno)));
        }
        Action::OpenRestartGate => {
            sh.restart_gate_open.set(true);
            for w in sh.restart_gate_wakers.borrow_mut().drain(..) {
                w.wake();
            }
            sh.ctx(|ctx| ev!(ctx, "service re-creations may complete"));
        }
        Action::FreezeWorker(s) | Action::ThawWorker(s) => {
            let freeze = matches!(a, Action::FreezeWorker(_));
            sh.workers.borrow_mut()[s].frozen = freeze;
            sh.ctx(|ctx| {
                ev!(ctx, "worker slot {s} {}", if freeze { "frozen" } else { "thawed" });
                if freeze {
                    ctx.bump("fault.worker_frozen");
                }
            });
        }
        Action::KillWorker(s, panic_mode) => {
            sim.o.kills += 1;
            if sh.first_fault_dispatch.get() == usize::MAX {
                sh.first_fault_dispatch.set(sh.dispatch_log.borrow().len());
            }
            if panic_mode {
                sh.panic_next_call.set(Some(s));
                sh.ctx(|ctx| ev!(ctx, "next call on slot {s} will panic"));
            } else {
                kill_worker(&sh, s);
                sh.ctx(|ctx| {
                    ev!(ctx, "kill worker slot {s}");
                    ctx.bump("fault.worker_killed");
                });
            }
        }
        Action::ReadyFlip(i, code) => {
            let r = match code {
                0 => Ready::Ok,
                1 => Ready::Pending,
                _ => Ready::Err,
            };
            if r == Ready::Err {
                sim.o.ready_errs += 1;
            }
            let w = {
                let mut is = sh.instances.borrow_mut();
                is[i].ready = r;
                let slot = is[i].slot;
                if let Some(l) = sh.svc_log.borrow_mut().get_mut(slot) {
                    l.push(crate::world::SvcEv::Flip(i));
                }
                is[i].waker.take()
            };
            if let Some(w) = w {
                w.wake();
            }
            sh.ctx(|ctx| {
                ev!(ctx, "readiness of i{i} -> {r:?}");
                ctx.bump("ready_flips");
            });
        }
        Action::RacePoll(..) | Action::RaceRelease(..) | Action::RaceTick(_) | Action::StopRaceAccept | Action::StopRacePoll(_) | Action::StopRaceTick | Action::BitSet(..) | Action::BitGet(_) => {}
    }
}

impl Engine for SrvSim {
    type Config = Config;
    type Action = Action;
    const NAME: &'static str = "srvsim";

    fn properties() -> &'static [&'static str] {
        &["C01", "C02", "C03", "C04", "C05", "C06", "C07", "C08"]
    }
    fn level(prop: &str) -> &'static str {
        match prop {
            "C05" | "C06" | "C08" => "fault_enumeration",
            _ => "exploration",
        }
    }
    fn isolate() -> bool {
        true
    }
    fn budget(prop: &str, tier: Tier) -> (u64, u64) {
        match tier {
            // C05/C06/C08 run fault-point sweeps on top of the random runs
            Tier::Quick if matches!(prop, "C05" | "C06" | "C08") => (100_000, 60),
            Tier::Quick => (150_000, 60),
            Tier::Thorough => (6_000_000, 600),
        }
    }
    fn gen_config(prop: &str, tier: Tier, rng: &mut Rng) -> Config {
        oracles::gen_config(prop, tier, rng)
    }
    fn max_actions(_: &str, cfg: &Config) -> usize {
        cfg.max_actions
    }
    fn run(prop: &str, cfg: &Config, ch: &mut Chooser<Action>, ctx: &mut RunCtx) -> Option<Violation> {
        if cfg.bitset_only {
            return oracles::run_bitset(cfg, ch, ctx);
        }
        let rt = tokio::runtime::Builder::new_current_thread()
            .enable_all()
            .start_paused(true)
            .build()
            .expect("runtime");
        let sh = Rc::new(Shared::new(prop, cfg, ch, ctx));
        set_shared(Some(sh.clone()));
        actix_server::verif::install(Rc::new(SimHooks(sh.clone())));
        let res = catch_unwind(AssertUnwindSafe(|| rt.block_on(sim_main(sh.clone()))));
        actix_server::verif::uninstall();
        set_shared(None);
        RACE_TICK.with(|t| *t.borrow_mut() = None);
        *sh.race_hook.borrow_mut() = None;
        *sh.accept.borrow_mut() = None;
        sh.workers.borrow_mut().clear();
        drop(rt);
        match res {
            Ok(v) => v,
            Err(p) => {
                let msg = p
                    .downcast_ref::<&str>()
                    .map(|s| s.to_string())
                    .or_else(|| p.downcast_ref::<String>().cloned())
                    .unwrap_or_default();
                Some(Violation::new("harness-panic", msg))
            }
        }
    }
    fn shrink_config(prop: &str, cfg: &Config) -> Vec<Config> {
        oracles::shrink_config(prop, cfg)
    }
    fn sweep_faults(prop: &str, cfg: &Config) -> Vec<Action> {
        oracles::sweep_faults(prop, cfg)
    }
    fn gen_sweep_base(prop: &str, tier: Tier, rng: &mut Rng) -> Option<Config> {
        oracles::gen_sweep_base(prop, tier, rng)
    }
    fn sweep_replay_config(prop: &str, cfg: &Config) -> Config {
        let mut c = cfg.clone();
        oracles::widen_for_sweep(prop, &mut c);
        c
    }
    fn sweep_bases(prop: &str, tier: Tier) -> u64 {
        oracles::sweep_bases(prop, tier)
    }
    fn describe(prop: &str) -> Describe {
        oracles::describe(prop)
    }
    fn required_probes(prop: &str, tier: Tier) -> Vec<&'static str> {
        oracles::required_probes(prop, tier)
    }
}
