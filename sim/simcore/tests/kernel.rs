//! Self-tests of the simulation kernel: seeded choice is a pure function of the seed, replay
//! consumes the recorded list and skips entries that are not enabled, nested choices only consume
//! entries that belong to them.

use simcore::{rng::derive, Chooser, Rng};

#[derive(Clone, Debug, PartialEq)]
enum A {
    X(u32),
    Y,
    N(u32),
}

fn program(ch: &mut Chooser<A>) -> Vec<A> {
    let mut out = Vec::new();
    for step in 0..20u32 {
        let en = vec![(A::X(step % 3), 2), (A::Y, 1)];
        let Some(a) = ch.choose(&en) else { break };
        out.push(a.clone());
        if a == A::Y {
            if let Some(n) = ch.choose_nested(&[(A::N(step), 1)], 1, 2) {
                out.push(n);
            }
        }
    }
    out
}

#[test]
fn seeded_runs_are_functions_of_the_seed() {
    for k in 0..200 {
        let seed = derive(1, "T", k);
        let a = program(&mut Chooser::seeded(Rng::new(seed), 15));
        let b = program(&mut Chooser::seeded(Rng::new(seed), 15));
        assert_eq!(a, b);
        let c = program(&mut Chooser::seeded(Rng::new(seed ^ 1), 15));
        let _ = c; // a different seed may or may not differ; nothing to assert
    }
}

#[test]
fn replay_reproduces_and_skips() {
    for k in 0..200 {
        let seed = derive(7, "T", k);
        let mut ch = Chooser::seeded(Rng::new(seed), 15);
        let a = program(&mut ch);
        assert_eq!(a, ch.taken);
        // exact replay
        let mut r = Chooser::replay(ch.taken.clone());
        assert_eq!(program(&mut r), a);
        assert_eq!(r.skipped, 0);
        // an entry that is never enabled is skipped, the rest still replays in order
        let mut list = ch.taken.clone();
        list.insert(list.len() / 2, A::X(99));
        let mut r = Chooser::replay(list);
        let b = program(&mut r);
        assert!(r.skipped >= 1);
        assert!(b.len() <= a.len() + 1);
    }
}

#[test]
fn nested_choice_only_takes_its_own_entries() {
    // recorded: Y then (no nested) then X(1): the nested choice must not swallow X(1)
    let mut r = Chooser::replay(vec![A::Y, A::X(1)]);
    let en = vec![(A::X(0), 1), (A::Y, 1)];
    assert_eq!(r.choose(&en), Some(A::Y));
    assert_eq!(r.choose_nested(&[(A::N(0), 1)], 1, 1), None);
    let en = vec![(A::X(1), 1), (A::Y, 1)];
    assert_eq!(r.choose(&en), Some(A::X(1)));
    assert!(r.done());
}

#[test]
fn derive_separates_properties_and_runs() {
    let mut seen = std::collections::HashSet::new();
    for p in ["C01", "C02", "C16"] {
        for k in 0..1000 {
            assert!(seen.insert(derive(1, p, k)));
        }
    }
}
