//! Counting wakers with an identity, for the strict-wake executor: a future that returned
//! `Pending` is re-polled only after one of the wakers it was handed has fired.

use std::{
    sync::{
        atomic::{AtomicU64, Ordering},
        Arc,
    },
    task::{Wake, Waker},
};

#[derive(Debug, Default)]
pub struct WakeFlag {
    pub id: u64,
    count: AtomicU64,
}

impl WakeFlag {
    pub fn new(id: u64) -> Arc<Self> {
        Arc::new(WakeFlag {
            id,
            count: AtomicU64::new(0),
        })
    }

    pub fn count(&self) -> u64 {
        self.count.load(Ordering::SeqCst)
    }

    pub fn fired(&self) -> bool {
        self.count() > 0
    }

    pub fn reset(&self) {
        self.count.store(0, Ordering::SeqCst)
    }

    /// Returns whether it had fired, and clears it.
    pub fn take(&self) -> bool {
        self.count.swap(0, Ordering::SeqCst) > 0
    }
}

impl Wake for WakeFlag {
    fn wake(self: Arc<Self>) {
        self.count.fetch_add(1, Ordering::SeqCst);
    }
    fn wake_by_ref(self: &Arc<Self>) {
        self.count.fetch_add(1, Ordering::SeqCst);
    }
}

pub fn waker(flag: &Arc<WakeFlag>) -> Waker {
    Waker::from(flag.clone())
}

/// A task slot under strict-wake rules: a fresh flag per poll; all flags handed out since the last
/// time the task made progress stay "live" (a correct future may be woken through any waker of its
/// most recent poll only, but keeping older ones alive can only make the executor more lenient in
/// the *legal* direction: wake-ups through stale wakers are permitted by the `Future` contract to
/// be ignored, so we track only the latest).
#[derive(Default)]
pub struct TaskWake {
    next_id: u64,
    pub current: Option<Arc<WakeFlag>>,
}

impl TaskWake {
    pub fn new() -> Self {
        Self::default()
    }

    /// Fresh waker for the next poll of this task.
    pub fn fresh(&mut self) -> (Arc<WakeFlag>, Waker) {
        self.next_id += 1;
        let f = WakeFlag::new(self.next_id);
        self.current = Some(f.clone());
        let w = waker(&f);
        (f, w)
    }

    /// The waker of the most recent poll once more (`will_wake` of the two is true): a task that is
    /// polled again, spuriously, by an executor that keeps its waker.
    pub fn same(&self) -> Option<(Arc<WakeFlag>, Waker)> {
        self.current.as_ref().map(|f| (f.clone(), waker(f)))
    }

    /// Has the waker of the most recent poll fired?
    pub fn woken(&self) -> bool {
        self.current.as_ref().map_or(false, |f| f.fired())
    }

    /// Never polled yet, or woken since the last poll.
    pub fn runnable(&self) -> bool {
        self.current.as_ref().map_or(true, |f| f.fired())
    }
}
