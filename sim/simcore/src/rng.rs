//! The only source of randomness in a simulated run: xoshiro256** seeded through splitmix64.

#[derive(Clone, Debug)]
pub struct Rng {
    s: [u64; 4],
}

pub fn splitmix64(x: &mut u64) -> u64 {
    *x = x.wrapping_add(0x9E37_79B9_7F4A_7C15);
    let mut z = *x;
    z = (z ^ (z >> 30)).wrapping_mul(0xBF58_476D_1CE4_E5B9);
    z = (z ^ (z >> 27)).wrapping_mul(0x94D0_49BB_1331_11EB);
    z ^ (z >> 31)
}

/// Derive the seed of run `k` of property `prop` from the base seed.
pub fn derive(base: u64, prop: &str, k: u64) -> u64 {
    let mut x = base ^ 0xA5A5_5A5A_DEAD_BEEF;
    for b in prop.bytes() {
        x = x.wrapping_mul(0x100_0000_01B3) ^ b as u64;
    }
    let mut y = splitmix64(&mut x) ^ k.wrapping_mul(0xD6E8_FEB8_6659_FD93);
    splitmix64(&mut y)
}

impl Rng {
    pub fn new(seed: u64) -> Self {
        let mut x = seed;
        let s = [
            splitmix64(&mut x),
            splitmix64(&mut x),
            splitmix64(&mut x),
            splitmix64(&mut x),
        ];
        Rng { s }
    }

    pub fn next_u64(&mut self) -> u64 {
        let r = self.s[1].wrapping_mul(5).rotate_left(7).wrapping_mul(9);
        let t = self.s[1] << 17;
        self.s[2] ^= self.s[0];
        self.s[3] ^= self.s[1];
        self.s[1] ^= self.s[2];
        self.s[0] ^= self.s[3];
        self.s[2] ^= t;
        self.s[3] = self.s[3].rotate_left(45);
        r
    }

    /// Uniform in `0..n` (`n > 0`).
    pub fn below(&mut self, n: u64) -> u64 {
        debug_assert!(n > 0);
        ((self.next_u64() as u128 * n as u128) >> 64) as u64
    }

    pub fn usize_below(&mut self, n: usize) -> usize {
        self.below(n as u64) as usize
    }

    /// Uniform in `lo..=hi`.
    pub fn range(&mut self, lo: u64, hi: u64) -> u64 {
        lo + self.below(hi - lo + 1)
    }

    pub fn chance(&mut self, num: u64, den: u64) -> bool {
        self.below(den) < num
    }

    pub fn pick<'a, T>(&mut self, xs: &'a [T]) -> &'a T {
        &xs[self.usize_below(xs.len())]
    }

    /// Index drawn with probability proportional to its weight (total weight must be > 0).
    pub fn weighted(&mut self, ws: impl Iterator<Item = u32> + Clone) -> usize {
        let total: u64 = ws.clone().map(|w| w as u64).sum();
        let mut x = self.below(total.max(1));
        for (i, w) in ws.enumerate() {
            if x < w as u64 {
                return i;
            }
            x -= w as u64;
        }
        0
    }

    pub fn shuffle<T>(&mut self, xs: &mut [T]) {
        for i in (1..xs.len()).rev() {
            let j = self.usize_below(i + 1);
            xs.swap(i, j);
        }
    }
}
