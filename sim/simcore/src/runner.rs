//! Batch runner shared by all engines: seeded runs fanned out over worker processes, fault-point
//! sweeps, determinism self-check, shrinking, replay files, known findings, evidence.

use std::{
    collections::{BTreeMap, HashSet},
    fmt::Debug,
    fs,
    io::Write as _,
    panic::{catch_unwind, AssertUnwindSafe},
    path::{Path, PathBuf},
    process::{Command, Stdio},
    time::{Duration, Instant},
};

use serde::{de::DeserializeOwned, Deserialize, Serialize};
use serde_json::{json, Value};

use crate::{
    choose::Chooser,
    rng::{derive, Rng},
};

#[derive(Clone, Copy, PartialEq, Eq, Debug)]
pub enum Tier {
    Quick,
    Thorough,
}

impl Tier {
    pub fn name(self) -> &'static str {
        match self {
            Tier::Quick => "quick",
            Tier::Thorough => "thorough",
        }
    }
}

#[derive(Clone, Debug, Serialize, Deserialize, PartialEq)]
pub struct Violation {
    pub class: String,
    pub detail: String,
    /// Structured facts about the failing case (what known-findings predicates match on).
    #[serde(default)]
    pub facts: BTreeMap<String, String>,
}

impl Violation {
    pub fn new(class: &str, detail: impl Into<String>) -> Self {
        Violation {
            class: class.to_string(),
            detail: detail.into(),
            facts: BTreeMap::new(),
        }
    }
    pub fn fact(mut self, k: &str, v: impl ToString) -> Self {
        self.facts.insert(k.to_string(), v.to_string());
        self
    }
    fn key(&self) -> String {
        let mut s = self.class.clone();
        for (k, v) in &self.facts {
            s.push_str(&format!("|{k}={v}"));
        }
        s
    }
}

/// Per-run context handed to the engine: event trace (hashed, optionally kept), counters, states.
pub struct RunCtx {
    pub stats: BTreeMap<&'static str, u64>,
    hash: u64,
    buf: String,
    pub trace: Option<Vec<String>>,
    pub nontrivial: bool,
    pub sim_ms: u64,
    pub states: HashSet<u64>,
    pub events: u64,
}

impl RunCtx {
    fn new(keep_trace: bool) -> Self {
        RunCtx {
            stats: BTreeMap::new(),
            hash: 0xcbf2_9ce4_8422_2325,
            buf: String::new(),
            trace: if keep_trace { Some(Vec::new()) } else { None },
            nontrivial: false,
            sim_ms: 0,
            states: HashSet::new(),
            events: 0,
        }
    }

    fn begin_run(&mut self) {
        self.hash = 0xcbf2_9ce4_8422_2325;
        self.nontrivial = false;
        self.sim_ms = 0;
        self.events = 0;
        if let Some(t) = &mut self.trace {
            t.clear();
        }
    }

    /// Record one event of the abstract trace (never reads clocks or the PRNG).
    pub fn ev(&mut self, args: std::fmt::Arguments<'_>) {
        use std::fmt::Write;
        self.buf.clear();
        let _ = self.buf.write_fmt(args);
        for b in self.buf.bytes() {
            self.hash = (self.hash ^ b as u64).wrapping_mul(0x100_0000_01B3);
        }
        self.hash = (self.hash ^ 0xff).wrapping_mul(0x100_0000_01B3);
        self.events += 1;
        if let Some(t) = &mut self.trace {
            t.push(self.buf.clone());
        }
    }

    pub fn bump(&mut self, name: &'static str) {
        *self.stats.entry(name).or_insert(0) += 1;
    }

    pub fn add(&mut self, name: &'static str, n: u64) {
        *self.stats.entry(name).or_insert(0) += n;
    }

    /// Record an abstract state snapshot (hashed by the engine).
    pub fn state(&mut self, h: u64) {
        self.states.insert(h);
    }

    pub fn trace_hash(&self) -> u64 {
        self.hash
    }
}

#[macro_export]
macro_rules! ev {
    ($ctx:expr, $($arg:tt)*) => { $ctx.ev(format_args!($($arg)*)) };
}

pub fn hash_u64s(xs: &[u64]) -> u64 {
    let mut h = 0xcbf2_9ce4_8422_2325u64;
    for x in xs {
        h = (h ^ x).wrapping_mul(0x100_0000_01B3);
        h ^= h >> 29;
    }
    h
}

pub struct Describe {
    pub rule: String,
    pub real: Vec<&'static str>,
    pub stub: Vec<&'static str>,
    pub assumptions: Vec<&'static str>,
}

pub trait Engine {
    type Config: Serialize + DeserializeOwned + Clone + Debug;
    type Action: Serialize + DeserializeOwned + Clone + PartialEq + Debug;

    const NAME: &'static str;

    fn properties() -> &'static [&'static str];
    fn level(prop: &str) -> &'static str;
    /// Run shrink candidates / corpus replays in watched child processes (real code may hang/abort).
    fn isolate() -> bool {
        false
    }
    /// (runs, wall-clock budget in seconds)
    fn budget(prop: &str, tier: Tier) -> (u64, u64);
    fn gen_config(prop: &str, tier: Tier, rng: &mut Rng) -> Self::Config;
    fn max_actions(prop: &str, cfg: &Self::Config) -> usize;
    fn run(
        prop: &str,
        cfg: &Self::Config,
        ch: &mut Chooser<Self::Action>,
        ctx: &mut RunCtx,
    ) -> Option<Violation>;
    fn shrink_config(_prop: &str, _cfg: &Self::Config) -> Vec<Self::Config> {
        Vec::new()
    }
    /// Fault actions to insert at every position of a fault-free base run (fault-point sweep).
    /// `gen_sweep_base` must then return a configuration whose seeded runs contain no fault.
    fn sweep_faults(_prop: &str, _cfg: &Self::Config) -> Vec<Self::Action> {
        Vec::new()
    }
    fn gen_sweep_base(_prop: &str, _tier: Tier, _rng: &mut Rng) -> Option<Self::Config> {
        None
    }
    /// Configuration under which the sweep variants (base list + one inserted fault) are replayed:
    /// the base configuration with the inserted fault class enabled.
    fn sweep_replay_config(_prop: &str, cfg: &Self::Config) -> Self::Config {
        cfg.clone()
    }
    /// Number of sweep base runs for the tier.
    fn sweep_bases(_prop: &str, _tier: Tier) -> u64 {
        0
    }
    fn describe(prop: &str) -> Describe;
    /// Counters that must be non-zero after a batch (reach self-check; harness error otherwise).
    fn required_probes(_prop: &str, _tier: Tier) -> Vec<&'static str> {
        Vec::new()
    }
    /// Whether the code under test contains a source of nondeterminism that the simulator cannot
    /// own (actix-rt: a randomly keyed HashMap). Only then may a violation that appears in some
    /// executions of a seed but not in others be reported (as *unstable*); for every other engine
    /// such a divergence is a harness error.
    fn allow_unstable() -> bool {
        false
    }
    /// Called once per process before the first run.
    fn process_init() {}
}

#[derive(Serialize, Deserialize, Clone, Debug)]
pub struct ReplayFile {
    pub property: String,
    pub engine: String,
    pub class: String,
    pub seed: u64,
    pub config: Value,
    /// `null` = re-generate from the seed (used for hang/abort cases that cannot be minimised)
    pub actions: Option<Vec<Value>>,
    pub expect: Value,
    #[serde(default)]
    pub repo_rev: String,
    #[serde(default)]
    pub note: String,
    /// The outcome depends on a source of nondeterminism inside the code under test that the
    /// simulator cannot own (e.g. iteration order of a randomly keyed HashMap): replay is
    /// best-effort and re-executes the file several times.
    #[serde(default)]
    pub unstable: bool,
}

#[derive(Serialize, Deserialize, Clone, Debug)]
struct FoundViolation {
    seed: u64,
    kind: String,
    violation: Violation,
    config: Value,
    actions: Vec<Value>,
}

#[derive(Serialize, Deserialize, Default)]
struct WorkerOut {
    evaluations: u64,
    sweep_runs: u64,
    sweep_bases: u64,
    all_hashes: u64,
    #[serde(default)]
    hash_cap_hit: bool,
    stats: BTreeMap<String, u64>,
    sim_ms: u64,
    actions_total: u64,
    actions_hist: BTreeMap<String, u64>,
    violations: Vec<FoundViolation>,
    samples: Vec<Value>,
    determinism_checked: u64,
    /// self-check mismatches that did not recur when the three executions were repeated
    #[serde(default)]
    determinism_transient: u64,
    determinism_mismatch: Vec<String>,
    completed: bool,
}

/// Per worker process: distinct trace hashes are counted up to this many (a conservative lower
/// bound beyond it; the evidence says when the cap was hit).
const HASH_CAP: usize = 3_000_000;

pub fn verif_root() -> PathBuf {
    PathBuf::from(std::env::var("VERIF_ROOT").unwrap_or_else(|_| "/verif".into()))
}

fn quiet_panics() {
    std::panic::set_hook(Box::new(|_| {}));
}

fn panic_msg(p: Box<dyn std::any::Any + Send>) -> String {
    if let Some(s) = p.downcast_ref::<&str>() {
        s.to_string()
    } else if let Some(s) = p.downcast_ref::<String>() {
        s.clone()
    } else {
        "<non-string panic>".into()
    }
}

/// Execute one run; a panic escaping the engine is a violation of class `panic` (engines catch the
/// panics they want to classify more precisely themselves).
fn exec<E: Engine>(
    prop: &str,
    cfg: &E::Config,
    ch: &mut Chooser<E::Action>,
    ctx: &mut RunCtx,
) -> Option<Violation> {
    ctx.begin_run();
    match catch_unwind(AssertUnwindSafe(|| E::run(prop, cfg, ch, ctx))) {
        Ok(v) => v,
        Err(p) => Some(Violation::new("panic", panic_msg(p))),
    }
}

fn acts_to_json<A: Serialize>(a: &[A]) -> Vec<Value> {
    a.iter().map(|x| serde_json::to_value(x).unwrap()).collect()
}

fn acts_from_json<A: DeserializeOwned>(v: &[Value]) -> Result<Vec<A>, String> {
    v.iter()
        .map(|x| serde_json::from_value(x.clone()).map_err(|e| format!("bad action {x}: {e}")))
        .collect()
}

struct Args {
    prop: String,
    tier: Tier,
    runs: Option<u64>,
    budget_s: Option<u64>,
    replay: Option<PathBuf>,
    worker: Option<(u64, u64)>,
    out: Option<PathBuf>,
    seed: u64,
    shrink: Option<(PathBuf, PathBuf)>,
    dump: Option<u64>,
    jobs: u64,
    no_corpus: bool,
}

fn parse_args() -> Result<Args, String> {
    let mut it = std::env::args().skip(1);
    let mut a = Args {
        prop: String::new(),
        tier: match std::env::var("VERIF_TIER").as_deref() {
            Ok("thorough") => Tier::Thorough,
            _ => Tier::Quick,
        },
        runs: std::env::var("VERIF_RUNS").ok().and_then(|s| s.parse().ok()),
        budget_s: std::env::var("VERIF_BUDGET_S").ok().and_then(|s| s.parse().ok()),
        replay: None,
        worker: None,
        out: None,
        seed: std::env::var("VERIF_SEED")
            .ok()
            .and_then(|s| s.parse().ok())
            .unwrap_or(1),
        shrink: None,
        dump: None,
        jobs: std::env::var("VERIF_JOBS")
            .ok()
            .and_then(|s| s.parse().ok())
            .unwrap_or_else(|| {
                std::thread::available_parallelism()
                    .map(|n| n.get() as u64)
                    .unwrap_or(4)
                    .min(16)
            }),
        no_corpus: false,
    };
    while let Some(x) = it.next() {
        match x.as_str() {
            "--tier" => {
                a.tier = match it.next().as_deref() {
                    Some("quick") => Tier::Quick,
                    Some("thorough") => Tier::Thorough,
                    o => return Err(format!("bad tier {o:?}")),
                }
            }
            "--runs" => a.runs = it.next().and_then(|s| s.parse().ok()),
            "--budget" => a.budget_s = it.next().and_then(|s| s.parse().ok()),
            "--seed" => a.seed = it.next().and_then(|s| s.parse().ok()).ok_or("bad seed")?,
            "--jobs" => a.jobs = it.next().and_then(|s| s.parse().ok()).ok_or("bad jobs")?,
            "--replay" => a.replay = it.next().map(PathBuf::from),
            "--dump" => a.dump = it.next().and_then(|s| s.parse().ok()),
            "--no-corpus" => a.no_corpus = true,
            "--out" => a.out = it.next().map(PathBuf::from),
            "--worker" => {
                let i = it.next().and_then(|s| s.parse().ok()).ok_or("bad worker")?;
                let n = it.next().and_then(|s| s.parse().ok()).ok_or("bad worker")?;
                a.worker = Some((i, n));
            }
            "--shrink" => {
                let i = it.next().ok_or("bad shrink")?;
                let o = it.next().ok_or("bad shrink")?;
                a.shrink = Some((i.into(), o.into()));
            }
            s if !s.starts_with('-') && a.prop.is_empty() => a.prop = s.to_string(),
            s => return Err(format!("unknown argument {s}")),
        }
    }
    if a.prop.is_empty() {
        return Err("usage: <engine> <property> [--tier quick|thorough] [--replay file]".into());
    }
    Ok(a)
}

/// Entry point of every engine binary. Never returns.
pub fn main_for<E: Engine>() -> ! {
    let args = match parse_args() {
        Ok(a) => a,
        Err(e) => {
            eprintln!("harness error: {e}");
            std::process::exit(2)
        }
    };
    if !E::properties().contains(&args.prop.as_str()) {
        eprintln!(
            "harness error: engine {} does not serve {}",
            E::NAME,
            args.prop
        );
        std::process::exit(2);
    }
    E::process_init();
    let code = if let Some(f) = &args.replay {
        replay_main::<E>(&args, f)
    } else if let Some((i, n)) = args.worker {
        quiet_panics();
        worker_main::<E>(&args, i, n)
    } else if let Some((i, o)) = &args.shrink {
        quiet_panics();
        shrink_main::<E>(&args, i, o)
    } else if let Some(seed) = args.dump {
        dump_main::<E>(&args, seed)
    } else {
        parent_main::<E>(&args)
    };
    std::process::exit(code)
}

fn inflight_path(prop: &str, i: u64) -> PathBuf {
    let d = verif_root().join("sim/target/inflight");
    let _ = fs::create_dir_all(&d);
    d.join(format!("{prop}-{i}.json"))
}

// ---------------------------------------------------------------------------------------------
// worker

enum Unit {
    Sweep(u64),
}

/// A self-check mismatch is confirmed by repeating the three executions (seeded, seeded, replay of
/// the recorded action list) twice more: it stands if any repetition disagrees again — with itself
/// or between the rounds. A mismatch that never recurs is counted and reported in the evidence
/// (`determinism_selfcheck_transient_mismatches`), not raised as a harness error.
fn confirm_mismatch<E: Engine>(prop: &str, cfg: &E::Config, rng: &Rng, max: usize, taken: &[E::Action]) -> bool {
    let mut hashes = Vec::new();
    for _ in 0..2 {
        for replay in [false, false, true] {
            let mut c = RunCtx::new(true);
            let mut ch = if replay { Chooser::replay(taken.to_vec()) } else { Chooser::seeded(rng.clone(), max) };
            if exec::<E>(prop, cfg, &mut ch, &mut c).is_some() {
                return true;
            }
            hashes.push(c.trace_hash());
        }
    }
    hashes.windows(2).any(|w| w[0] != w[1])
}

fn worker_main<E: Engine>(args: &Args, i: u64, n: u64) -> i32 {
    // a worker never outlives the process that started it (a killed driver must not leave
    // workers spinning inside a loop of the code under test)
    // SAFETY: plain prctl call with constant arguments.
    unsafe {
        libc::prctl(libc::PR_SET_PDEATHSIG, libc::SIGKILL);
    }
    let prop = args.prop.as_str();
    let (def_runs, def_budget) = E::budget(prop, args.tier);
    let runs = args.runs.unwrap_or(def_runs);
    let budget = Duration::from_secs(args.budget_s.unwrap_or(def_budget));
    let sweep_bases = if args.runs.is_some() {
        0
    } else {
        E::sweep_bases(prop, args.tier)
    };
    let start = Instant::now();
    let mut out = WorkerOut::default();
    let mut ctx = RunCtx::new(false);
    let mut nontrivial: HashSet<u64> = HashSet::new();
    let mut all: HashSet<u64> = HashSet::new();
    let mut seen_keys: BTreeMap<String, usize> = BTreeMap::new();
    let isolate = E::isolate();
    let infl = inflight_path(prop, i);
    let det_every = match args.tier {
        Tier::Quick => 97,
        Tier::Thorough => 41,
    };

    // Watchdog: a run that does not finish within 20 s of real time (a loop inside the code under
    // test never returns) is recorded as in flight and the worker process ends; the parent turns
    // that into a violation of class `hang` with the seed as replay.
    let current = std::sync::Arc::new((std::sync::atomic::AtomicU64::new(0), std::sync::atomic::AtomicU64::new(0)));
    {
        let cur = current.clone();
        let infl = infl.clone();
        std::thread::spawn(move || {
            let mut last = (0u64, 0u64);
            let mut since = Instant::now();
            loop {
                std::thread::sleep(Duration::from_millis(250));
                let now = (cur.0.load(std::sync::atomic::Ordering::Relaxed), cur.1.load(std::sync::atomic::Ordering::Relaxed));
                if now != last {
                    last = now;
                    since = Instant::now();
                } else if now.1 != 0 && since.elapsed() > Duration::from_secs(20) {
                    let _ = fs::write(&infl, json!({"seed": now.0, "kind": "random"}).to_string());
                    std::process::exit(3);
                }
            }
        });
    }
    let mut units: Vec<Unit> = Vec::new();
    let mut k = i;
    while k < sweep_bases {
        units.push(Unit::Sweep(derive(args.seed, prop, 1_000_000_007 + k)));
        k += n;
    }
    let mut k = i;
    // sweeps first (bounded), then random runs until count or budget is exhausted
    let record = |out: &mut WorkerOut,
                      ctx: &RunCtx,
                      nontrivial: &mut HashSet<u64>,
                      all: &mut HashSet<u64>,
                      taken: usize| {
        out.evaluations += 1;
        out.sim_ms += ctx.sim_ms;
        out.actions_total += taken as u64;
        let bucket = match taken {
            0..=4 => "0-4",
            5..=9 => "5-9",
            10..=19 => "10-19",
            20..=49 => "20-49",
            50..=99 => "50-99",
            100..=199 => "100-199",
            _ => "200+",
        };
        *out.actions_hist.entry(bucket.to_string()).or_insert(0) += 1;
        if all.len() < HASH_CAP {
            all.insert(ctx.trace_hash());
        }
        if ctx.nontrivial && nontrivial.len() < HASH_CAP {
            nontrivial.insert(ctx.trace_hash());
        }
    };
    let found = |out: &mut WorkerOut,
                     seen_keys: &mut BTreeMap<String, usize>,
                     seed: u64,
                     kind: &str,
                     v: Violation,
                     cfg: &E::Config,
                     taken: &[E::Action]| {
        let key = v.key();
        let best = seen_keys.entry(key.clone()).or_insert(usize::MAX);
        // keep, per (class, facts) key, the case with the fewest actions
        if taken.len() < *best {
            *best = taken.len();
            out.violations.retain(|f| f.violation.key() != key);
            out.violations.push(FoundViolation {
                seed,
                kind: kind.to_string(),
                violation: v,
                config: serde_json::to_value(cfg).unwrap(),
                actions: acts_to_json(taken),
            });
        }
    };

    // sweeps get at most half of the wall-clock budget, the random runs the rest
    let sweep_budget = budget / 2;
    for u in units {
        if start.elapsed() > sweep_budget {
            break;
        }
        let Unit::Sweep(seed) = u;
        let mut rng = Rng::new(seed);
        let Some(cfg) = E::gen_sweep_base(prop, args.tier, &mut rng) else {
            break;
        };
        let max = E::max_actions(prop, &cfg);
        let mut ch = Chooser::seeded(rng, max);
        if isolate {
            let _ = fs::write(&infl, json!({"seed": seed, "kind": "sweep-base"}).to_string());
        }
        let v = exec::<E>(prop, &cfg, &mut ch, &mut ctx);
        record(&mut out, &ctx, &mut nontrivial, &mut all, ch.taken.len());
        out.sweep_bases += 1;
        if let Some(v) = v {
            found(&mut out, &mut seen_keys, seed, "sweep-base", v, &cfg, &ch.taken);
            continue;
        }
        let base = ch.taken.clone();
        let cfg = E::sweep_replay_config(prop, &cfg);
        let faults = E::sweep_faults(prop, &cfg);
        'sweep: for p in 0..=base.len() {
            for f in &faults {
                if start.elapsed() > sweep_budget {
                    break 'sweep;
                }
                let mut list = base[..p].to_vec();
                list.push(f.clone());
                list.extend_from_slice(&base[p..]);
                if isolate {
                    let _ = fs::write(
                        &infl,
                        json!({"seed": seed, "kind": "sweep", "config": serde_json::to_value(&cfg).unwrap(),
                               "actions": acts_to_json(&list)})
                        .to_string(),
                    );
                }
                let mut ch = Chooser::replay(list);
                let v = exec::<E>(prop, &cfg, &mut ch, &mut ctx);
                record(&mut out, &ctx, &mut nontrivial, &mut all, ch.taken.len());
                out.sweep_runs += 1;
                if let Some(v) = v {
                    found(&mut out, &mut seen_keys, seed, "sweep", v, &cfg, &ch.taken);
                }
            }
        }
    }

    let mut completed = true;
    while k < runs {
        if start.elapsed() > budget {
            completed = false;
            break;
        }
        let seed = derive(args.seed, prop, k);
        current.0.store(seed, std::sync::atomic::Ordering::Relaxed);
        current.1.store(k + 1, std::sync::atomic::Ordering::Relaxed);
        let mut rng = Rng::new(seed);
        let cfg = E::gen_config(prop, args.tier, &mut rng);
        let max = E::max_actions(prop, &cfg);
        if isolate {
            let _ = fs::write(&infl, json!({"seed": seed, "kind": "random"}).to_string());
        }
        let mut ch = Chooser::seeded(rng.clone(), max);
        let v = exec::<E>(prop, &cfg, &mut ch, &mut ctx);
        record(&mut out, &ctx, &mut nontrivial, &mut all, ch.taken.len());
        let h1 = ctx.trace_hash();
        let trace_env = std::env::var("VERIF_TRACE_SEED").ok();
        if trace_env.as_deref() == Some("all") || trace_env.and_then(|s| s.parse::<u64>().ok()) == Some(seed) {
            let mut cx = RunCtx::new(true);
            let mut chx = Chooser::replay(ch.taken.clone());
            let _ = exec::<E>(prop, &cfg, &mut chx, &mut cx);
            eprintln!("TRACE seed={seed} replay-hash={:016x} first-hash={h1:016x}", cx.trace_hash());
            for a in &ch.taken {
                eprintln!("  act {}", serde_json::to_string(a).unwrap());
            }
            for e in cx.trace.unwrap_or_default() {
                eprintln!("  | {e}");
            }
        }
        if std::env::var("VERIF_TRACE_RUNS").is_ok() {
            eprintln!("run seed={seed} hash={h1:016x} sim_ms={} nontrivial={}", ctx.sim_ms, ctx.nontrivial);
        }
        if let Some(v) = v {
            found(&mut out, &mut seen_keys, seed, "random", v, &cfg, &ch.taken);
        } else if (k / n) % det_every == 0 {
            // determinism self-check: same seed again (full trace kept), and once more as a replay
            // of the recorded action list; all three must produce the identical event trace.
            let taken = ch.taken.clone();
            let mut c2 = RunCtx::new(true);
            let mut ch2 = Chooser::seeded(rng.clone(), max);
            let v2 = exec::<E>(prop, &cfg, &mut ch2, &mut c2);
            let mut c3 = RunCtx::new(true);
            let mut ch3 = Chooser::replay(taken.clone());
            let v3 = exec::<E>(prop, &cfg, &mut ch3, &mut c3);
            out.determinism_checked += 1;
            if v2.is_some() || c2.trace_hash() != h1 {
                // Same seed, different execution. If some re-execution violates the property the
                // divergence comes from the code under test (a source of nondeterminism the
                // simulator does not own) and is reported as an unstable violation; otherwise it
                // is a harness problem.
                let mut hit = v2.map(|v| (v, ch2.taken.clone()));
                for _ in 0..12 {
                    if hit.is_some() {
                        break;
                    }
                    let mut cx = RunCtx::new(false);
                    let mut chx = Chooser::seeded(rng.clone(), max);
                    if let Some(v) = exec::<E>(prop, &cfg, &mut chx, &mut cx) {
                        hit = Some((v, chx.taken.clone()));
                    }
                }
                match hit {
                    Some((v, taken)) if E::allow_unstable() => found(&mut out, &mut seen_keys, seed, "unstable", v.fact("unstable", true), &cfg, &taken),
                    _ => {
                        if confirm_mismatch::<E>(prop, &cfg, &rng, max, &taken) {
                            out.determinism_mismatch.push(format!("seed {seed}: second seeded run differs"));
                        } else {
                            out.determinism_transient += 1;
                        }
                    }
                }
            } else if v3.is_some() || c3.trace_hash() != h1 {
                let t2 = c2.trace.unwrap_or_default();
                let t3 = c3.trace.unwrap_or_default();
                let at = t2.iter().zip(t3.iter()).position(|(a, b)| a != b);
                let mut hit = v3.map(|v| (v, ch3.taken.clone()));
                for _ in 0..12 {
                    if hit.is_some() {
                        break;
                    }
                    let mut cx = RunCtx::new(false);
                    let mut chx = Chooser::seeded(rng.clone(), max);
                    if let Some(v) = exec::<E>(prop, &cfg, &mut chx, &mut cx) {
                        hit = Some((v, chx.taken.clone()));
                    }
                }
                if let (Some((v, taken)), true) = (hit, E::allow_unstable()) {
                    found(&mut out, &mut seen_keys, seed, "unstable", v.fact("unstable", true), &cfg, &taken);
                } else if confirm_mismatch::<E>(prop, &cfg, &rng, max, &taken) {
                    out.determinism_mismatch.push(format!(
                        "seed {seed}: replay of recorded actions differs at event {at:?}: {:?} vs {:?}",
                        at.and_then(|i| t2.get(i)),
                        at.and_then(|i| t3.get(i))
                    ));
                } else {
                    out.determinism_transient += 1;
                }
            }
            for (s, n) in c2.stats.iter().chain(c3.stats.iter()) {
                let _ = (s, n); // self-check runs do not contribute to counters
            }
            if out.samples.len() < 3 && i == 0 {
                let mut c4 = RunCtx::new(true);
                let mut ch4 = Chooser::replay(taken.clone());
                let _ = exec::<E>(prop, &cfg, &mut ch4, &mut c4);
                let tr = c4.trace.unwrap_or_default();
                out.samples.push(json!({
                    "seed": seed,
                    "config": serde_json::to_value(&cfg).unwrap(),
                    "actions": acts_to_json(&taken),
                    "trace_events": tr.len(),
                    "trace_head": tr.iter().take(60).collect::<Vec<_>>(),
                }));
            }
        }
        k += n;
    }
    current.1.store(0, std::sync::atomic::Ordering::Relaxed);
    out.completed = completed;
    out.all_hashes = all.len() as u64;
    // distinct-trace and state hashes go to binary side files (they can be millions)
    let path = args.out.clone().expect("--out");
    let dump = |suffix: &str, it: &mut dyn Iterator<Item = u64>| {
        let mut bytes = Vec::new();
        for h in it {
            bytes.extend_from_slice(&h.to_le_bytes());
        }
        let _ = fs::write(format!("{}.{suffix}", path.display()), bytes);
    };
    dump("nt", &mut nontrivial.iter().copied());
    dump("st", &mut ctx.states.iter().copied());
    out.hash_cap_hit = nontrivial.len() >= HASH_CAP;
    out.stats = ctx
        .stats
        .iter()
        .map(|(k, v)| (k.to_string(), *v))
        .collect();
    let _ = fs::remove_file(&infl);
    fs::write(&path, serde_json::to_vec(&out).unwrap()).expect("write worker output");
    0
}

// ---------------------------------------------------------------------------------------------
// shrinking

fn run_list<E: Engine>(
    prop: &str,
    cfg: &E::Config,
    list: &[E::Action],
    keep_trace: bool,
) -> (Option<Violation>, Vec<E::Action>, RunCtx) {
    let mut ctx = RunCtx::new(keep_trace);
    let mut ch = Chooser::replay(list.to_vec());
    let v = exec::<E>(prop, cfg, &mut ch, &mut ctx);
    (v, ch.taken, ctx)
}

/// Delta-debug the action list, then try simpler configurations, keeping the same class.
fn shrink<E: Engine>(
    prop: &str,
    mut cfg: E::Config,
    mut list: Vec<E::Action>,
    class: &str,
) -> (E::Config, Vec<E::Action>, Violation, u64) {
    let deadline = Instant::now() + Duration::from_secs(60);
    let mut execs = 0u64;
    let same = |v: &Option<Violation>| v.as_ref().map_or(false, |v| v.class == class);
    let (v0, taken0, _) = run_list::<E>(prop, &cfg, &list, false);
    execs += 1;
    let mut best_v = match v0 {
        Some(v) if v.class == class => {
            list = taken0;
            v
        }
        _ => {
            return (
                cfg,
                list,
                Violation::new("not-reproduced", "replay of the recorded list did not fail"),
                execs,
            )
        }
    };
    loop {
        let mut progress = false;
        // 1. action list
        let mut chunk = (list.len() / 2).max(1);
        while chunk >= 1 && Instant::now() < deadline {
            let mut i = 0;
            while i < list.len() && Instant::now() < deadline {
                let mut cand = list[..i].to_vec();
                cand.extend_from_slice(&list[(i + chunk).min(list.len())..]);
                let (v, taken, _) = run_list::<E>(prop, &cfg, &cand, false);
                execs += 1;
                if same(&v) && taken.len() < list.len() {
                    list = taken;
                    best_v = v.unwrap();
                    progress = true;
                } else {
                    i += chunk;
                }
            }
            if chunk == 1 {
                break;
            }
            chunk /= 2;
        }
        // 2. configuration
        let mut cfg_progress = true;
        while cfg_progress && Instant::now() < deadline {
            cfg_progress = false;
            for c in E::shrink_config(prop, &cfg) {
                let (v, taken, _) = run_list::<E>(prop, &c, &list, false);
                execs += 1;
                if same(&v) && taken.len() <= list.len() {
                    cfg = c;
                    list = taken;
                    best_v = v.unwrap();
                    cfg_progress = true;
                    progress = true;
                    break;
                }
            }
        }
        if !progress || Instant::now() >= deadline {
            break;
        }
    }
    (cfg, list, best_v, execs)
}

fn shrink_main<E: Engine>(args: &Args, input: &Path, output: &Path) -> i32 {
    let f: FoundViolation = serde_json::from_slice(&fs::read(input).expect("read")).expect("parse");
    let cfg: E::Config = serde_json::from_value(f.config.clone()).expect("config");
    let list: Vec<E::Action> = acts_from_json(&f.actions).expect("actions");
    let (cfg, list, v, execs) = shrink::<E>(&args.prop, cfg, list, &f.violation.class);
    let out = json!({
        "config": serde_json::to_value(&cfg).unwrap(),
        "actions": acts_to_json(&list),
        "violation": v,
        "execs": execs,
    });
    fs::write(output, out.to_string()).expect("write");
    0
}

// ---------------------------------------------------------------------------------------------
// replay / dump

fn replay_main<E: Engine>(args: &Args, file: &Path) -> i32 {
    let rf: ReplayFile = match fs::read(file)
        .map_err(|e| e.to_string())
        .and_then(|b| serde_json::from_slice(&b).map_err(|e| e.to_string()))
    {
        Ok(r) => r,
        Err(e) => {
            eprintln!("harness error: cannot read replay file {}: {e}", file.display());
            return 2;
        }
    };
    if rf.property != args.prop {
        eprintln!("harness error: replay file is for {}", rf.property);
        return 2;
    }
    let quiet = std::env::var("VERIF_REPLAY_QUIET").is_ok();
    let attempts = if rf.unstable { 300 } else { 1 };
    // panics inside simulated code are part of the trace (injected faults, real defects): one line
    std::panic::set_hook(Box::new(move |info| {
        if !quiet {
            println!("  ! panic: {info}");
        }
    }));
    let mut attempt = 0;
    let (v, taken, ctx) = loop {
      attempt += 1;
      let r = match &rf.actions {
        Some(a) => {
            let cfg: E::Config = match serde_json::from_value(rf.config.clone()) {
                Ok(c) => c,
                Err(e) => {
                    eprintln!("harness error: bad config in replay file: {e}");
                    return 2;
                }
            };
            let list: Vec<E::Action> = match acts_from_json(a) {
                Ok(l) => l,
                Err(e) => {
                    eprintln!("harness error: {e}");
                    return 2;
                }
            };
            run_list::<E>(&args.prop, &cfg, &list, true)
        }
        None => {
            let mut rng = Rng::new(rf.seed);
            let cfg = E::gen_config(&args.prop, args.tier, &mut rng);
            let max = E::max_actions(&args.prop, &cfg);
            let mut ctx = RunCtx::new(true);
            let mut ch = Chooser::seeded(rng, max);
            let v = exec::<E>(&args.prop, &cfg, &mut ch, &mut ctx);
            (v, ch.taken, ctx)
        }
      };
      if r.0.is_some() || attempt >= attempts {
          break r;
      }
    };
    if !quiet {
        if rf.unstable {
            println!("unstable replay: attempt {attempt} of up to {attempts}");
        }
        println!("replay {} seed={} engine={}", file.display(), rf.seed, E::NAME);
        println!("config: {}", rf.config);
        for (i, a) in taken.iter().enumerate() {
            println!("  action[{i}] {}", serde_json::to_string(a).unwrap());
        }
        if let Some(t) = &ctx.trace {
            for e in t {
                println!("  | {e}");
            }
        }
    }
    match v {
        Some(v) => {
            println!(
                "violation class={} at_action={} detail={}",
                v.class,
                taken.len(),
                v.detail
            );
            println!("trace_hash={:016x}", ctx.trace_hash());
            println!("VIOLATION property={} replay={}", args.prop, file.display());
            1
        }
        None => {
            println!("trace_hash={:016x}", ctx.trace_hash());
            println!("no violation on replay of {}", file.display());
            0
        }
    }
}

fn dump_main<E: Engine>(args: &Args, seed: u64) -> i32 {
    let mut rng = Rng::new(seed);
    let cfg = E::gen_config(&args.prop, args.tier, &mut rng);
    let max = E::max_actions(&args.prop, &cfg);
    let mut ctx = RunCtx::new(true);
    let mut ch = Chooser::seeded(rng, max);
    let v = exec::<E>(&args.prop, &cfg, &mut ch, &mut ctx);
    println!("seed {seed} config {}", serde_json::to_string(&cfg).unwrap());
    for (i, a) in ch.taken.iter().enumerate() {
        println!("  action[{i}] {}", serde_json::to_string(a).unwrap());
    }
    for e in ctx.trace.as_deref().unwrap_or(&[]) {
        println!("  | {e}");
    }
    println!("trace_hash={:016x} nontrivial={} violation={:?}", ctx.trace_hash(), ctx.nontrivial, v);
    0
}

// ---------------------------------------------------------------------------------------------
// parent

#[derive(Deserialize, Clone, Debug)]
struct KnownEntry {
    property: String,
    class: String,
    #[serde(default)]
    r#match: BTreeMap<String, String>,
    status: String,
    #[serde(default)]
    what: String,
}

fn load_known() -> Result<Vec<KnownEntry>, String> {
    let p = verif_root().join("known_findings.json");
    if !p.exists() {
        return Ok(Vec::new());
    }
    let v: Value = serde_json::from_slice(&fs::read(&p).map_err(|e| e.to_string())?)
        .map_err(|e| format!("known_findings.json: {e}"))?;
    let arr = v.get("findings").cloned().unwrap_or(json!([]));
    serde_json::from_value(arr).map_err(|e| format!("known_findings.json: {e}"))
}

fn known_match<'a>(known: &'a [KnownEntry], prop: &str, v: &Violation) -> Option<&'a KnownEntry> {
    known.iter().find(|k| {
        k.status == "known"
            && k.property == prop
            && k.class == v.class
            && k.r#match.iter().all(|(a, b)| v.facts.get(a) == Some(b))
    })
}

fn repo_rev() -> String {
    Command::new("git")
        .args(["-C", "/repo", "rev-parse", "--short", "HEAD"])
        .output()
        .ok()
        .map(|o| String::from_utf8_lossy(&o.stdout).trim().to_string())
        .unwrap_or_default()
}

fn wait_child(mut c: std::process::Child, limit: Duration) -> Result<std::process::ExitStatus, String> {
    let start = Instant::now();
    loop {
        match c.try_wait() {
            Ok(Some(s)) => return Ok(s),
            Ok(None) => {
                if start.elapsed() > limit {
                    let _ = c.kill();
                    let _ = c.wait();
                    return Err("timeout".into());
                }
                std::thread::sleep(Duration::from_millis(20));
            }
            Err(e) => return Err(e.to_string()),
        }
    }
}

fn parent_main<E: Engine>(args: &Args) -> i32 {
    let prop = args.prop.as_str();
    let start = Instant::now();
    let exe = std::env::current_exe().expect("current_exe");
    let root = verif_root();
    let tmp = root.join("sim/target/run").join(format!("{prop}-{}", std::process::id()));
    let _ = fs::create_dir_all(&tmp);
    let _ = fs::create_dir_all(root.join("evidence"));
    let _ = fs::create_dir_all(root.join("replays"));
    let (def_runs, def_budget) = E::budget(prop, args.tier);
    let budget_s = args.budget_s.unwrap_or(def_budget);
    let runs = args.runs.unwrap_or(def_runs);
    let known = match load_known() {
        Ok(k) => k,
        Err(e) => {
            eprintln!("harness error: {e}");
            return 2;
        }
    };
    println!(
        "[{}] property={} tier={} seed={} runs<={} budget={}s jobs={}",
        E::NAME,
        prop,
        args.tier.name(),
        args.seed,
        runs,
        budget_s,
        args.jobs
    );

    let mut found: Vec<FoundViolation> = Vec::new();
    let mut corpus_replayed = 0u64;

    // 1. regression corpus: minimised replays of everything found earlier (defects that were
    //    repaired, deliberately broken variants). On a tree where the property holds none fires.
    if !args.no_corpus {
        let dir = root.join("corpus").join(prop);
        let mut files: Vec<PathBuf> = fs::read_dir(&dir)
            .map(|d| d.filter_map(|e| e.ok().map(|e| e.path())).collect())
            .unwrap_or_default();
        files.retain(|p| p.extension().map_or(false, |e| e == "json"));
        files.sort();
        for f in files {
            corpus_replayed += 1;
            let out = Command::new(&exe)
                .arg(prop)
                .arg("--replay")
                .arg(&f)
                .env("VERIF_REPLAY_QUIET", "1")
                .stdout(Stdio::piped())
                .stderr(Stdio::null())
                .spawn();
            let Ok(child) = out else {
                eprintln!("harness error: cannot spawn corpus replay");
                return 2;
            };
            // watched: the code under test may block for good in a replay as in any other run
            let pid = child.id() as i32;
            let (txo, rxo) = std::sync::mpsc::channel();
            std::thread::spawn(move || {
                let _ = txo.send(child.wait_with_output());
            });
            let pid_out = match rxo.recv_timeout(Duration::from_secs(60)) {
                Ok(o) => o,
                Err(_) => {
                    // SAFETY: plain kill(2) on the child we spawned.
                    unsafe {
                        libc::kill(pid, libc::SIGKILL);
                    }
                    let _ = rxo.recv_timeout(Duration::from_secs(5));
                    let rf: ReplayFile = serde_json::from_slice(&fs::read(&f).unwrap()).expect("corpus file");
                    let v = Violation::new("hang", format!("the replay of corpus file {} did not end within 60 s", f.display()));
                    found.push(FoundViolation { seed: rf.seed, kind: "corpus".into(), violation: v, config: rf.config, actions: rf.actions.unwrap_or_default() });
                    continue;
                }
            };
            match pid_out {
                Ok(o) if o.status.code() == Some(0) => {}
                Ok(o) if o.status.code() == Some(1) => {
                    let rf: ReplayFile =
                        serde_json::from_slice(&fs::read(&f).unwrap()).expect("corpus file");
                    let txt = String::from_utf8_lossy(&o.stdout).to_string();
                    let class = txt
                        .lines()
                        .find_map(|l| l.strip_prefix("violation class="))
                        .and_then(|l| l.split_whitespace().next())
                        .unwrap_or("unknown")
                        .to_string();
                    let mut v = Violation::new(&class, format!("corpus file {}", f.display()));
                    if let Some(fa) = rf.expect.get("facts").and_then(|x| x.as_object()) {
                        for (k, val) in fa {
                            v.facts
                                .insert(k.clone(), val.as_str().unwrap_or_default().to_string());
                        }
                    }
                    found.push(FoundViolation {
                        seed: rf.seed,
                        kind: "corpus".into(),
                        violation: v,
                        config: rf.config,
                        actions: rf.actions.unwrap_or_default(),
                    });
                }
                Ok(o) => {
                    eprintln!(
                        "harness error: corpus replay {} exited with {:?}",
                        f.display(),
                        o.status
                    );
                    return 2;
                }
                Err(e) => {
                    eprintln!("harness error: corpus replay: {e}");
                    return 2;
                }
            }
        }
    }

    // 2. fan out
    let n = args.jobs.max(1);
    let mut children = Vec::new();
    for i in 0..n {
        let out = tmp.join(format!("w{i}.json"));
        let mut c = Command::new(&exe);
        c.arg(prop)
            .args(["--tier", args.tier.name()])
            .args(["--seed", &args.seed.to_string()])
            .args(["--worker", &i.to_string(), &n.to_string()])
            .arg("--out")
            .arg(&out)
            .args(["--budget", &budget_s.to_string()])
            .stdout(Stdio::null())
            .stderr(Stdio::null());
        if let Some(r) = args.runs {
            c.args(["--runs", &r.to_string()]);
        }
        match c.spawn() {
            Ok(ch) => children.push((i, out, ch)),
            Err(e) => {
                eprintln!("harness error: cannot spawn worker: {e}");
                return 2;
            }
        }
    }
    let mut merged = WorkerOut::default();
    let mut nontrivial: Vec<u64> = Vec::new();
    let mut states: Vec<u64> = Vec::new();
    let mut cap_hit = false;
    let mut all_done = true;
    let hard_limit = Duration::from_secs(budget_s + 120);
    for (i, out, ch) in children {
        let st = wait_child(ch, hard_limit.saturating_sub(start.elapsed()).max(Duration::from_secs(5)));
        let ok = matches!(&st, Ok(s) if s.success());
        if !ok {
            // a worker died or hung inside real code: the in-flight file names the case
            let infl = inflight_path(prop, i);
            let class = match &st {
                Err(_) => "hang",
                // the worker's own watchdog ends the process with code 3 when a run never returns
                Ok(s) if s.code() == Some(3) => "hang",
                Ok(_) => "abort",
            };
            match fs::read(&infl).ok().and_then(|b| serde_json::from_slice::<Value>(&b).ok()) {
                Some(j) => {
                    let seed = j["seed"].as_u64().unwrap_or(0);
                    let v = Violation::new(class, format!("worker process {i} ended with {st:?}"));
                    found.push(FoundViolation {
                        seed,
                        kind: format!("inflight-{}", j["kind"].as_str().unwrap_or("?")),
                        violation: v,
                        config: j.get("config").cloned().unwrap_or(Value::Null),
                        actions: j
                            .get("actions")
                            .and_then(|a| a.as_array().cloned())
                            .unwrap_or_default(),
                    });
                    let _ = fs::remove_file(&infl);
                }
                None => {
                    eprintln!("harness error: worker {i} failed ({st:?}) with no in-flight record");
                    return 2;
                }
            }
            all_done = false;
            continue;
        }
        let w: WorkerOut = match fs::read(&out)
            .map_err(|e| e.to_string())
            .and_then(|b| serde_json::from_slice(&b).map_err(|e| e.to_string()))
        {
            Ok(w) => w,
            Err(e) => {
                eprintln!("harness error: worker {i} output unreadable: {e}");
                return 2;
            }
        };
        merged.evaluations += w.evaluations;
        merged.sweep_runs += w.sweep_runs;
        merged.sweep_bases += w.sweep_bases;
        merged.sim_ms += w.sim_ms;
        merged.actions_total += w.actions_total;
        merged.all_hashes += w.all_hashes;
        merged.determinism_checked += w.determinism_checked;
        merged.determinism_transient += w.determinism_transient;
        merged.determinism_mismatch.extend(w.determinism_mismatch);
        for (k, v) in w.stats {
            *merged.stats.entry(k).or_insert(0) += v;
        }
        for (k, v) in w.actions_hist {
            *merged.actions_hist.entry(k).or_insert(0) += v;
        }
        let load = |suffix: &str, into: &mut Vec<u64>| {
            if let Ok(b) = fs::read(format!("{}.{suffix}", out.display())) {
                into.extend(b.chunks_exact(8).map(|c| u64::from_le_bytes(c.try_into().unwrap())));
            }
        };
        load("nt", &mut nontrivial);
        load("st", &mut states);
        cap_hit |= w.hash_cap_hit;
        found.extend(w.violations);
        merged.samples.extend(w.samples);
        all_done &= w.completed;
    }

    nontrivial.sort_unstable();
    nontrivial.dedup();
    states.sort_unstable();
    states.dedup();

    // A divergence between two executions of one seed is a harness problem -- unless some
    // divergent execution violated the property: then the nondeterminism sits in the code under
    // test (the unchanged tree is deterministic under this harness) and the violation is reported.
    let unstable_found = found.iter().any(|f| f.kind == "unstable");
    if !merged.determinism_mismatch.is_empty() && unstable_found {
        println!(
            "note: {} seed(s) executed differently on re-execution; attributed to the code under test because divergent executions violate the property",
            merged.determinism_mismatch.len()
        );
    }
    if !merged.determinism_mismatch.is_empty() && !unstable_found {
        for m in merged.determinism_mismatch.iter().take(5) {
            eprintln!("harness error: nondeterminism: {m}");
        }
        let _ = fs::remove_dir_all(&tmp);
        return 2;
    }

    // 3. triage
    let mut by_key: BTreeMap<String, FoundViolation> = BTreeMap::new();
    for f in found {
        let k = f.violation.key();
        match by_key.get(&k) {
            Some(old)
                if old.actions.len() <= f.actions.len() && !old.actions.is_empty()
                    || f.actions.is_empty() && !old.actions.is_empty() => {}
            _ => {
                by_key.insert(k, f);
            }
        }
    }
    let mut known_hit: BTreeMap<String, u64> = BTreeMap::new();
    let mut real: Vec<FoundViolation> = Vec::new();
    let mut harness_classes: Vec<String> = Vec::new();
    for (_, f) in by_key {
        // problems of the simulator itself (resource exhaustion, broken harness invariant) are never
        // reported as violations of the property
        if f.violation.class.starts_with("harness") {
            harness_classes.push(format!("{} (seed {}): {}", f.violation.class, f.seed, f.violation.detail));
            continue;
        }
        if let Some(k) = known_match(&known, prop, &f.violation) {
            let line = format!("KNOWN-FINDING: property={} {}", prop, k.what);
            *known_hit.entry(line).or_insert(0) += 1;
        } else {
            real.push(f);
        }
    }
    for line in known_hit.keys() {
        println!("{line}");
    }

    // at most one reported violation per class (the smallest), at most 4 classes
    let mut per_class: BTreeMap<String, FoundViolation> = BTreeMap::new();
    for f in real {
        let c = f.violation.class.clone();
        match per_class.get(&c) {
            Some(old) if old.actions.len() <= f.actions.len() && !old.actions.is_empty() => {}
            _ => {
                per_class.insert(c, f);
            }
        }
    }
    let mut violation_lines = Vec::new();
    let mut harness_err = false;
    for h in harness_classes.iter().take(5) {
        eprintln!("harness error: {h}");
        harness_err = true;
    }
    let rev = repo_rev();
    for (class, f) in per_class.into_iter().take(4) {
        // minimise (in a child when real code may hang)
        let unstable = f.kind == "unstable";
        let (cfg_v, acts_v, viol) = if f.actions.is_empty() || f.config.is_null() || unstable {
            let acts = if unstable { Some(f.actions.clone()) } else { None };
            (f.config.clone(), acts, f.violation.clone())
        } else {
            let inp = tmp.join(format!("shrink-in-{class}.json"));
            let outp = tmp.join(format!("shrink-out-{class}.json"));
            fs::write(&inp, serde_json::to_vec(&f).unwrap()).unwrap();
            let child = Command::new(&exe)
                .arg(prop)
                .arg("--shrink")
                .arg(&inp)
                .arg(&outp)
                .stdout(Stdio::null())
                .stderr(Stdio::null())
                .spawn();
            let res = child
                .map_err(|e| e.to_string())
                .and_then(|c| wait_child(c, Duration::from_secs(150)));
            let parsed = fs::read(&outp)
                .ok()
                .and_then(|b| serde_json::from_slice::<Value>(&b).ok());
            match (res, parsed) {
                (Ok(s), Some(j)) if s.success() && j["violation"]["class"] == class.as_str() => (
                    j["config"].clone(),
                    Some(j["actions"].as_array().cloned().unwrap_or_default()),
                    serde_json::from_value(j["violation"].clone()).unwrap_or(f.violation.clone()),
                ),
                _ => (f.config.clone(), Some(f.actions.clone()), f.violation.clone()),
            }
        };
        let file = root
            .join("replays")
            .join(format!("{prop}-{class}-{}.json", f.seed));
        let n_actions = acts_v.as_ref().map_or(0, |a| a.len());
        let rf = ReplayFile {
            property: prop.to_string(),
            engine: E::NAME.to_string(),
            class: class.clone(),
            seed: f.seed,
            config: cfg_v,
            actions: acts_v,
            expect: json!({"class": class, "at_action": n_actions, "detail": viol.detail, "facts": viol.facts}),
            repo_rev: rev.clone(),
            note: format!("found by {} run; original length {} actions", f.kind, f.actions.len()),
            unstable,
        };
        fs::write(&file, serde_json::to_vec_pretty(&rf).unwrap()).unwrap();
        // round trip in a fresh process
        let chk = Command::new(&exe)
            .arg(prop)
            .args(["--tier", args.tier.name()])
            .arg("--replay")
            .arg(&file)
            .env("VERIF_REPLAY_QUIET", "1")
            .stdout(Stdio::piped())
            .stderr(Stdio::null())
            .spawn()
            .map_err(|e| e.to_string())
            .and_then(|c| {
                let start = Instant::now();
                let mut c = c;
                loop {
                    match c.try_wait() {
                        Ok(Some(_)) => break c.wait_with_output().map_err(|e| e.to_string()),
                        Ok(None) if start.elapsed() > Duration::from_secs(if class == "hang" { 25 } else { 90 }) => {
                            let _ = c.kill();
                            break Err("timeout".to_string());
                        }
                        Ok(None) => std::thread::sleep(Duration::from_millis(20)),
                        Err(e) => break Err(e.to_string()),
                    }
                }
            });
        let reproduced = match (&chk, class.as_str()) {
            (Err(e), "hang") if e == "timeout" => true,
            (Ok(o), "abort") => !o.status.success() && o.status.code() != Some(1),
            (Ok(o), _) => {
                o.status.code() == Some(1)
                    && String::from_utf8_lossy(&o.stdout)
                        .lines()
                        .any(|l| l.starts_with(&format!("violation class={class} ")))
            }
            _ => false,
        };
        // A violation that does not replay at once may depend on a source of nondeterminism inside
        // the code under test (e.g. hash iteration order): mark the file unstable and let the
        // replay command re-execute it repeatedly before giving up.
        let mut unstable = unstable;
        let reproduced = if !reproduced && !unstable && class != "hang" && class != "abort" && E::allow_unstable() {
            let mut rf2 = rf.clone();
            rf2.unstable = true;
            fs::write(&file, serde_json::to_vec_pretty(&rf2).unwrap()).unwrap();
            let again = Command::new(&exe)
                .arg(prop)
                .args(["--tier", args.tier.name()])
                .arg("--replay")
                .arg(&file)
                .env("VERIF_REPLAY_QUIET", "1")
                .stdout(Stdio::piped())
                .stderr(Stdio::null())
                .output();
            let ok = again.map_or(false, |o| {
                o.status.code() == Some(1)
                    && String::from_utf8_lossy(&o.stdout).lines().any(|l| l.starts_with(&format!("violation class={class} ")))
            });
            if ok {
                unstable = true;
                println!("note: violation class={class} reproduces only in some executions of the same action list (nondeterminism inside the code under test); replay file marked unstable");
            } else {
                fs::write(&file, serde_json::to_vec_pretty(&rf).unwrap()).unwrap();
            }
            ok
        } else {
            reproduced
        };
        // An unstable violation was observed in the worker (a divergent execution of the seed
        // violated the property); if no replay attempt reproduces it, it is still reported, and
        // the replay file says so.
        let reproduced = if !reproduced && unstable {
            println!("note: unstable violation class={class} did not reproduce in the replay attempts; reported from the worker's observation");
            true
        } else {
            reproduced
        };
        if reproduced {
            println!(
                "violation class={class} seed={} actions={} detail={}",
                f.seed, n_actions, viol.detail
            );
            violation_lines.push(format!("VIOLATION property={} replay={}", prop, file.display()));
        } else {
            eprintln!(
                "harness error: violation class={class} seed={} did not replay from {} ({:?})",
                f.seed,
                file.display(),
                chk.as_ref().map(|o| o.status)
            );
            harness_err = true;
        }
    }

    // 4. reach self-check
    let mut missing = Vec::new();
    if all_done || merged.evaluations > 0 {
        for p in E::required_probes(prop, args.tier) {
            if merged.stats.get(p).copied().unwrap_or(0) == 0 {
                missing.push(p);
            }
        }
    }

    // 5. evidence
    let wall = start.elapsed().as_secs_f64();
    let d = E::describe(prop);
    let faults: BTreeMap<&String, &u64> =
        merged.stats.iter().filter(|(k, _)| k.starts_with("fault.")).collect();
    let probes: BTreeMap<&String, &u64> =
        merged.stats.iter().filter(|(k, _)| k.starts_with("probe.")).collect();
    let other: BTreeMap<&String, &u64> = merged
        .stats
        .iter()
        .filter(|(k, _)| !k.starts_with("probe.") && !k.starts_with("fault."))
        .collect();
    let evidence = json!({
        "property_id": prop,
        "tier": args.tier.name(),
        "seed": args.seed,
        "level": E::level(prop),
        "coverage": {
            "evaluations": merged.evaluations,
            "distinct_nontrivial": nontrivial.len(),
            "rule": d.rule,
            "samples": merged.samples.iter().take(3).collect::<Vec<_>>(),
            "states": states.len(),
            "engine": E::NAME,
            "random_runs": merged.evaluations - merged.sweep_runs - merged.sweep_bases,
            "sweep_base_histories": merged.sweep_bases,
            "sweep_runs": merged.sweep_runs,
            "corpus_replayed": corpus_replayed,
            "actions_total": merged.actions_total,
            "actions_per_run_histogram": merged.actions_hist,
            "simulated_seconds": merged.sim_ms as f64 / 1000.0,
            "runs_per_hour": if wall > 0.0 { merged.evaluations as f64 / wall * 3600.0 } else { 0.0 },
            "seeds_per_hour": if wall > 0.0 { (merged.evaluations - merged.sweep_runs) as f64 / wall * 3600.0 } else { 0.0 },
            "faults_fired": faults,
            "probes": probes,
            "counters": other,
            "probes_required_but_zero": missing,
            "determinism_selfcheck_runs": merged.determinism_checked,
            "determinism_selfcheck_transient_mismatches": merged.determinism_transient,
            "budget_exhausted_before_run_count": !all_done,
            "worker_processes": n,
            "real_code": d.real,
            "stubbed": d.stub,
            "known_findings_hit": known_hit.keys().collect::<Vec<_>>(),
            "exhaustive": false,
            "distinct_count_capped_per_worker": cap_hit,
        },
        "assumptions": d.assumptions,
        "wall_s": wall,
        "violations": violation_lines.len(),
    });
    let ev_path = root.join("evidence").join(format!("{prop}.json"));
    if let Err(e) = fs::File::create(&ev_path)
        .and_then(|mut f| f.write_all(serde_json::to_string_pretty(&evidence).unwrap().as_bytes()))
    {
        eprintln!("harness error: cannot write evidence: {e}");
        harness_err = true;
    }
    let _ = fs::remove_dir_all(&tmp);

    println!(
        "[{}] {} runs ({} sweep), {} distinct non-trivial traces, {} states, {:.1}s wall, {:.0} runs/h, sim {:.0}s",
        E::NAME,
        merged.evaluations,
        merged.sweep_runs,
        nontrivial.len(),
        states.len(),
        wall,
        if wall > 0.0 { merged.evaluations as f64 / wall * 3600.0 } else { 0.0 },
        merged.sim_ms as f64 / 1000.0
    );
    if !violation_lines.is_empty() {
        for l in &violation_lines {
            println!("{l}");
        }
        return 1;
    }
    if harness_err {
        return 2;
    }
    if !missing.is_empty() {
        eprintln!("harness error: reach self-check: probes never hit: {missing:?}");
        return 2;
    }
    println!("OK property={prop} held on everything explored");
    0
}
