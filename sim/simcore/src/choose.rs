//! Every decision of a run goes through a `Chooser`: either the seeded PRNG picks one of the
//! enabled actions, or a recorded action list is replayed (actions that are not enabled at their
//! position are skipped, which is what makes deletion-based shrinking robust).

use crate::rng::Rng;

enum Mode<A> {
    Seeded(Rng),
    Replay { list: Vec<A>, pos: usize },
}

pub struct Chooser<A> {
    mode: Mode<A>,
    /// Actions actually taken, in order (this is what a replay file stores).
    pub taken: Vec<A>,
    pub max_actions: usize,
    /// replay mode: entries skipped because they were not enabled
    pub skipped: usize,
}

impl<A: Clone + PartialEq> Chooser<A> {
    pub fn seeded(rng: Rng, max_actions: usize) -> Self {
        Chooser {
            mode: Mode::Seeded(rng),
            taken: Vec::new(),
            max_actions,
            skipped: 0,
        }
    }

    pub fn replay(list: Vec<A>) -> Self {
        Chooser {
            mode: Mode::Replay { list, pos: 0 },
            taken: Vec::new(),
            max_actions: usize::MAX,
            skipped: 0,
        }
    }

    pub fn is_replay(&self) -> bool {
        matches!(self.mode, Mode::Replay { .. })
    }

    /// True when no further top-level action will be produced.
    pub fn done(&self) -> bool {
        match &self.mode {
            Mode::Seeded(_) => self.taken.len() >= self.max_actions,
            Mode::Replay { list, pos } => *pos >= list.len(),
        }
    }

    /// Top-level choice: one of `enabled` (weight > 0), or `None` when the run's program is over.
    pub fn choose(&mut self, enabled: &[(A, u32)]) -> Option<A> {
        match &mut self.mode {
            Mode::Seeded(rng) => {
                if self.taken.len() >= self.max_actions || enabled.is_empty() {
                    return None;
                }
                let total: u64 = enabled.iter().map(|e| e.1 as u64).sum();
                if total == 0 {
                    return None;
                }
                let i = rng.weighted(enabled.iter().map(|e| e.1));
                let a = enabled[i].0.clone();
                self.taken.push(a.clone());
                Some(a)
            }
            Mode::Replay { list, pos } => {
                while *pos < list.len() {
                    let a = list[*pos].clone();
                    *pos += 1;
                    if enabled.iter().any(|e| e.0 == a) {
                        self.taken.push(a.clone());
                        return Some(a);
                    }
                    self.skipped += 1;
                }
                None
            }
        }
    }

    /// Nested (optional) choice made from inside a hook: with probability `p_num/p_den` one of
    /// `enabled` is taken. In replay mode the next recorded action is consumed only if it is one of
    /// `enabled`; otherwise nothing happens here and the entry stays for the top level.
    pub fn choose_nested(&mut self, enabled: &[(A, u32)], p_num: u64, p_den: u64) -> Option<A> {
        match &mut self.mode {
            Mode::Seeded(rng) => {
                if self.taken.len() >= self.max_actions || enabled.is_empty() {
                    return None;
                }
                if !rng.chance(p_num, p_den) {
                    return None;
                }
                let i = rng.weighted(enabled.iter().map(|e| e.1));
                let a = enabled[i].0.clone();
                self.taken.push(a.clone());
                Some(a)
            }
            Mode::Replay { list, pos } => {
                if *pos < list.len() && enabled.iter().any(|e| e.0 == list[*pos]) {
                    let a = list[*pos].clone();
                    *pos += 1;
                    self.taken.push(a.clone());
                    Some(a)
                } else {
                    None
                }
            }
        }
    }
}
