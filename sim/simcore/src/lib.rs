//! Simulation kernel shared by all engines (see /verif/DESIGN.md §2).
pub mod choose;
pub mod rng;
pub mod runner;
pub mod wake;

pub use choose::Chooser;
pub use rng::Rng;
pub use runner::{main_for, Describe, Engine, RunCtx, Tier, Violation};
