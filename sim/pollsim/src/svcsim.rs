//! svcsim — C11 (combinators compute the documented composition) and C12 (readiness and polling
//! obey the Service / Future contracts). Random combinator trees over scripted leaf services and
//! factories, driven by a strict-wake executor; a small tree interpreter is the reference.
//! Real code: actix-service (unmodified). Stub: leaves, transforms, executor.

use std::{
    cell::{Cell, RefCell},
    future::Future,
    pin::Pin,
    rc::Rc,
    sync::Arc,
    task::{Context, Poll, Waker},
};

use actix_service::{
    apply, apply_cfg, apply_cfg_factory, apply_fn, apply_fn_factory, boxed, fn_factory, fn_factory_with_config,
    map_config, unit_config, Service, ServiceExt, ServiceFactory, ServiceFactoryExt, Transform,
};
use serde::{Deserialize, Serialize};
use simcore::{ev, runner::hash_u64s, wake::TaskWake, Chooser, Describe, Engine, Rng, RunCtx, Tier, Violation};

type V = Vec<u16>;
type BoxSvc = boxed::BoxService<V, V, V>;
type BoxFac = boxed::BoxServiceFactory<u16, V, V, V, V>;

// ------------------------------------------------------------------------------------------------
// program: combinator trees

#[derive(Serialize, Deserialize, Clone, Debug, PartialEq)]
pub enum Node {
    Leaf(usize),
    AndThen(Box<Node>, Box<Node>),
    Map(Box<Node>, u16),
    MapErr(Box<Node>, u16),
    ApplyFn(Box<Node>, u16),
    /// service produced by the harness transform `tag` around an inner service
    Wrapped(Box<Node>, u16),
    Boxed(Box<Node>),
    RcBoxed(Box<Node>),
    RcW(Box<Node>),
    RefCellW(Box<Node>),
    BoxW(Box<Node>),
    /// fixed, fully static (un-erased) expression number n over leaves 0..3
    Static(u8),
}

#[derive(Serialize, Deserialize, Clone, Debug, PartialEq)]
pub enum FNode {
    LeafF(usize),
    AndThenF(Box<FNode>, Box<FNode>),
    MapF(Box<FNode>, u16),
    MapErrF(Box<FNode>, u16),
    MapInitErrF(Box<FNode>, u16),
    MapConfigF(Box<FNode>, u16),
    ApplyFnF(Box<FNode>, u16),
    /// apply(transform with leaf-like id `t` and tag, factory)
    ApplyTransformF(usize, u16, Box<FNode>),
    BoxedF(Box<FNode>),
    RcF(Box<FNode>),
    FnFactory(usize),
    StaticF(u8),
}

#[derive(Serialize, Deserialize, Clone, Debug)]
pub struct Config {
    factory_mode: bool,
    tree: Node,
    ftree: FNode,
    leaves: usize,
    /// per leaf: outcome of a call for request id r is call_ok[leaf] bit (r % 8)
    call_ok: Vec<u8>,
    /// per leaf (and transform): factory / transform construction succeeds
    fact_ok: Vec<bool>,
    root_cfg: u16,
    max_actions: usize,
    spurious: u32,
    w_adv: u32,
    w_poll: u32,
    /// the service may be dropped while calls are in flight
    #[serde(default)]
    drop_service: bool,
    /// the factory is dropped as soon as `new_service` has returned, before its future is polled
    #[serde(default)]
    drop_factory: bool,
}

#[derive(Serialize, Deserialize, Clone, Debug, PartialEq)]
pub enum Action {
    PollReady,
    SpuriousPollReady,
    Call,
    PollFut(usize),
    SpuriousPollFut(usize),
    DropFut(usize),
    SetReady(usize, u8),
    AdvanceCall(usize, usize),
    // factory side
    PollFactFut,
    SpuriousPollFactFut,
    AdvanceFact(usize),
    /// drop the (last handle of the) service; calls in flight go on
    DropService,
}

// ------------------------------------------------------------------------------------------------
// world shared between leaves and the simulator

#[derive(Clone, Copy, PartialEq, Debug)]
enum R {
    Pending,
    Ok,
    Err,
}

struct CallState {
    leaf: usize,
    req: V,
    ok: bool,
    advanced: Cell<bool>,
    done: Cell<bool>,
    dropped: Cell<bool>,
    waker: RefCell<Option<Waker>>,
    waker_epoch: Cell<u64>,
    polled_epoch: Cell<u64>,
}

struct FactState {
    leaf: usize,
    ok: bool,
    advanced: Cell<bool>,
    done: Cell<bool>,
    waker: RefCell<Option<Waker>>,
    waker_epoch: Cell<u64>,
    polled_epoch: Cell<u64>,
    created: Cell<bool>,
}

struct LeafState {
    ready: R,
    ready_waker: Option<Waker>,
    ready_waker_epoch: u64,
    ready_polled_epoch: u64,
    calls: Vec<Rc<CallState>>,
    new_service_cfgs: Vec<u16>,
    fact: Option<Rc<FactState>>,
}

#[derive(Default)]
struct World {
    leaves: Vec<LeafState>,
    epoch: u64,
    violation: Option<Violation>,
    log: Vec<String>,
    call_ok: Vec<u8>,
    fact_ok: Vec<bool>,
    /// order of leaf calls (leaf, request trace) as they happen
    call_log: Vec<(usize, V)>,
}

thread_local! {
    static W: RefCell<World> = RefCell::new(World::default());
}

fn w<T>(f: impl FnOnce(&mut World) -> T) -> T {
    W.with(|c| f(&mut c.borrow_mut()))
}

fn violate(v: Violation) {
    w(|x| {
        if x.violation.is_none() {
            x.violation = Some(v)
        }
    })
}

fn req_id(v: &V) -> u16 {
    v.first().copied().unwrap_or(0)
}

// leaf service -----------------------------------------------------------------------------------

#[derive(Clone)]
struct Leaf(usize);

struct LeafFut(Rc<CallState>);

impl Drop for LeafFut {
    fn drop(&mut self) {
        self.0.dropped.set(true);
    }
}

impl Future for LeafFut {
    type Output = Result<V, V>;
    fn poll(self: Pin<&mut Self>, cx: &mut Context<'_>) -> Poll<Self::Output> {
        let s = &self.0;
        let epoch = w(|x| x.epoch);
        s.polled_epoch.set(epoch);
        if s.done.get() {
            violate(Violation::new(
                "poll-after-ready",
                format!("the call future of leaf {} (request {:?}) was polled again after it had completed", s.leaf, s.req),
            ));
            return Poll::Pending;
        }
        if s.advanced.get() {
            s.done.set(true);
            let mut v = s.req.clone();
            if s.ok {
                v.push(100 + s.leaf as u16);
                Poll::Ready(Ok(v))
            } else {
                v.push(500 + s.leaf as u16);
                Poll::Ready(Err(v))
            }
        } else {
            *s.waker.borrow_mut() = Some(cx.waker().clone());
            s.waker_epoch.set(epoch);
            Poll::Pending
        }
    }
}

impl Service<V> for Leaf {
    type Response = V;
    type Error = V;
    type Future = LeafFut;

    fn poll_ready(&self, cx: &mut Context<'_>) -> Poll<Result<(), V>> {
        w(|x| {
            let e = x.epoch;
            let l = &mut x.leaves[self.0];
            l.ready_polled_epoch = e;
            match l.ready {
                R::Ok => Poll::Ready(Ok(())),
                R::Err => Poll::Ready(Err(vec![900 + self.0 as u16])),
                R::Pending => {
                    l.ready_waker = Some(cx.waker().clone());
                    l.ready_waker_epoch = e;
                    Poll::Pending
                }
            }
        })
    }

    fn call(&self, req: V) -> LeafFut {
        let st = w(|x| {
            let ok = (x.call_ok[self.0] >> (req_id(&req) % 8)) & 1 == 1;
            let st = Rc::new(CallState {
                leaf: self.0,
                req: req.clone(),
                ok,
                advanced: Cell::new(false),
                done: Cell::new(false),
                dropped: Cell::new(false),
                waker: RefCell::new(None),
                waker_epoch: Cell::new(0),
                polled_epoch: Cell::new(0),
            });
            x.leaves[self.0].calls.push(st.clone());
            x.call_log.push((self.0, req.clone()));
            x.log.push(format!("leaf {} called with {:?}", self.0, req));
            st
        });
        LeafFut(st)
    }
}

// leaf factory / transform construction futures ---------------------------------------------------

struct FactFut<T> {
    st: Rc<FactState>,
    make: Option<Box<dyn FnOnce() -> T>>,
}

impl<T> Unpin for FactFut<T> {}

impl<T> Future for FactFut<T> {
    type Output = Result<T, V>;
    fn poll(mut self: Pin<&mut Self>, cx: &mut Context<'_>) -> Poll<Self::Output> {
        let epoch = w(|x| x.epoch);
        let s = self.st.clone();
        s.polled_epoch.set(epoch);
        if s.done.get() {
            violate(Violation::new(
                "poll-after-ready",
                format!("the construction future of factory/transform {} was polled again after it had completed", s.leaf),
            ));
            return Poll::Pending;
        }
        if s.advanced.get() {
            s.done.set(true);
            if s.ok {
                s.created.set(true);
                Poll::Ready(Ok((self.make.take().unwrap())()))
            } else {
                Poll::Ready(Err(vec![700 + s.leaf as u16]))
            }
        } else {
            *s.waker.borrow_mut() = Some(cx.waker().clone());
            s.waker_epoch.set(epoch);
            Poll::Pending
        }
    }
}

fn new_fact_state(leaf: usize, cfg: u16) -> Rc<FactState> {
    w(|x| {
        let st = Rc::new(FactState {
            leaf,
            ok: x.fact_ok[leaf],
            advanced: Cell::new(false),
            done: Cell::new(false),
            waker: RefCell::new(None),
            waker_epoch: Cell::new(0),
            polled_epoch: Cell::new(0),
            created: Cell::new(false),
        });
        x.leaves[leaf].new_service_cfgs.push(cfg);
        if x.leaves[leaf].fact.is_some() {
            x.violation.get_or_insert(Violation::new(
                "built-twice",
                format!("factory/transform {leaf} was asked to build a second time for one new_service of the root"),
            ));
        }
        x.leaves[leaf].fact = Some(st.clone());
        x.log.push(format!("factory {leaf} new_service(cfg {cfg})"));
        st
    })
}

#[derive(Clone)]
struct LeafFactory(usize);

impl ServiceFactory<V> for LeafFactory {
    type Response = V;
    type Error = V;
    type Config = u16;
    type Service = Leaf;
    type InitError = V;
    type Future = FactFut<Leaf>;
    fn new_service(&self, cfg: u16) -> Self::Future {
        let id = self.0;
        FactFut { st: new_fact_state(id, cfg), make: Some(Box::new(move || Leaf(id))) }
    }
}

// harness transform: tags the request on the way in and the response on the way out
#[derive(Clone)]
struct Tr {
    id: usize,
    tag: u16,
}

struct TrSvc<S> {
    inner: S,
    tag: u16,
}

impl<S: Service<V, Response = V, Error = V>> Service<V> for TrSvc<S>
where
    S::Future: 'static,
{
    type Response = V;
    type Error = V;
    type Future = Pin<Box<dyn Future<Output = Result<V, V>>>>;
    fn poll_ready(&self, cx: &mut Context<'_>) -> Poll<Result<(), V>> {
        self.inner.poll_ready(cx)
    }
    fn call(&self, mut req: V) -> Self::Future {
        req.push(self.tag);
        let fut = self.inner.call(req);
        let tag = self.tag;
        Box::pin(MapOkFut { fut: Box::pin(fut), tag: tag + 1 })
    }
}

/// Hand-written (no async block) so that every poll is a plain forward.
struct MapOkFut {
    fut: Pin<Box<dyn Future<Output = Result<V, V>>>>,
    tag: u16,
}

impl Future for MapOkFut {
    type Output = Result<V, V>;
    fn poll(mut self: Pin<&mut Self>, cx: &mut Context<'_>) -> Poll<Self::Output> {
        match self.fut.as_mut().poll(cx) {
            Poll::Pending => Poll::Pending,
            Poll::Ready(Ok(mut v)) => {
                v.push(self.tag);
                Poll::Ready(Ok(v))
            }
            Poll::Ready(Err(e)) => Poll::Ready(Err(e)),
        }
    }
}

impl<S: Service<V, Response = V, Error = V> + 'static> Transform<S, V> for Tr
where
    S::Future: 'static,
{
    type Response = V;
    type Error = V;
    type Transform = TrSvc<S>;
    type InitError = V;
    type Future = FactFut<TrSvc<S>>;
    fn new_transform(&self, service: S) -> Self::Future {
        let tag = self.tag;
        FactFut { st: new_fact_state(self.id, 0), make: Some(Box::new(move || TrSvc { inner: service, tag })) }
    }
}

// ------------------------------------------------------------------------------------------------
// building the real combinator expressions

fn apply_wrap(tag: u16) -> impl Fn(V, &BoxSvc) -> MapOkFut + Clone {
    move |mut req: V, svc: &BoxSvc| {
        req.push(tag);
        MapOkFut { fut: svc.call(req), tag: tag + 1 }
    }
}

fn build(n: &Node) -> BoxSvc {
    match n {
        Node::Leaf(i) => boxed::service(Leaf(*i)),
        Node::AndThen(a, b) => boxed::service(build(a).and_then(build(b))),
        Node::Map(a, t) => {
            let t = *t;
            boxed::service(build(a).map(move |mut v: V| {
                v.push(t);
                v
            }))
        }
        Node::MapErr(a, t) => {
            let t = *t;
            boxed::service(build(a).map_err(move |mut v: V| {
                v.push(t);
                v
            }))
        }
        Node::ApplyFn(a, t) => boxed::service(apply_fn(build(a), apply_wrap(*t))),
        Node::Wrapped(a, t) => boxed::service(TrSvc { inner: build(a), tag: *t }),
        Node::Boxed(a) => boxed::service(build(a)),
        Node::RcBoxed(a) => boxed::service(boxed::rc_service(build(a))),
        Node::RcW(a) => boxed::service(Rc::new(build(a))),
        Node::RefCellW(a) => boxed::service(RefCell::new(build(a))),
        Node::BoxW(a) => boxed::service(Box::new(build(a))),
        Node::Static(k) => build_static(*k),
    }
}

fn tagf(t: u16) -> impl Fn(V) -> V + Clone {
    move |mut v: V| {
        v.push(t);
        v
    }
}

/// A service that reaches itself through its own `RefCell` handle from inside `call` (an internal
/// redirect): the first time a request comes in it is tagged and sent through the handle again.
struct Redirect {
    me: RefCell<std::rc::Weak<RefCell<Redirect>>>,
    leaf: Leaf,
}

impl Service<V> for Redirect {
    type Response = V;
    type Error = V;
    type Future = LeafFut;
    fn poll_ready(&self, cx: &mut Context<'_>) -> Poll<Result<(), V>> {
        self.leaf.poll_ready(cx)
    }
    fn call(&self, mut req: V) -> LeafFut {
        if !req.contains(&41) {
            req.push(41);
            let me = self.me.borrow().upgrade().expect("handle alive");
            Service::call(&*me, req)
        } else {
            self.leaf.call(req)
        }
    }
}

/// Un-erased nestings (concrete combinator types all the way down).
fn build_static(k: u8) -> BoxSvc {
    match k % 6 {
        5 => {
            let cell = Rc::new(RefCell::new(Redirect { me: RefCell::new(std::rc::Weak::new()), leaf: Leaf(0) }));
            *cell.borrow().me.borrow_mut() = Rc::downgrade(&cell);
            boxed::service(cell)
        }
        0 => boxed::service(Leaf(0).and_then(Leaf(1)).map(tagf(31)).map_err(tagf(32))),
        1 => boxed::service(apply_fn(Leaf(0).and_then(Leaf(1)), |mut req: V, svc: &_| {
            req.push(33);
            Service::call(svc, req)
        })
        .and_then(Leaf(2))),
        2 => boxed::service(Rc::new(Leaf(0).map(tagf(35))).and_then(RefCell::new(Leaf(1).map_err(tagf(36))))),
        3 => boxed::service(Box::new(Leaf(0)).and_then(Leaf(1).and_then(Leaf(2)).map_err(tagf(37))).map(tagf(38))),
        _ => boxed::service(Leaf(0).map_err(tagf(39)).and_then(Leaf(1).map(tagf(40)).map_err(tagf(39)))),
    }
}

fn static_shape(k: u8) -> Node {
    use Node::*;
    let l = |i| Box::new(Leaf(i));
    match k % 6 {
        // re-entrant call through the RefCell wrapper: the request is tagged once, then the leaf
        5 => ApplyFnNoOut(l(0), 41).lower(),
        0 => MapErr(Box::new(Map(Box::new(AndThen(l(0), l(1))), 31)), 32),
        // the closure does not tag the response
        1 => AndThen(Box::new(ApplyFnNoOut(Box::new(AndThen(l(0), l(1))), 33).lower()), l(2)),
        2 => AndThen(Box::new(Map(l(0), 35)), Box::new(MapErr(l(1), 36))),
        3 => Map(Box::new(AndThen(l(0), Box::new(MapErr(Box::new(AndThen(l(1), l(2))), 37)))), 38),
        _ => AndThen(Box::new(MapErr(l(0), 39)), Box::new(MapErr(Box::new(Map(l(1), 40)), 39))),
    }
}

/// helper to express "tag the request only" in terms of the interpreter's node set
struct ApplyFnNoOut(Box<Node>, u16);
impl ApplyFnNoOut {
    fn lower(self) -> Node {
        Node::TagReq(self.0, self.1)
    }
}

fn build_f(n: &FNode) -> BoxFac {
    match n {
        FNode::LeafF(i) => boxed::factory(LeafFactory(*i)),
        FNode::AndThenF(a, b) => boxed::factory(build_f(a).and_then(build_f(b))),
        FNode::MapF(a, t) => boxed::factory(build_f(a).map(tagf(*t))),
        FNode::MapErrF(a, t) => boxed::factory(build_f(a).map_err(tagf(*t))),
        FNode::MapInitErrF(a, t) => boxed::factory(build_f(a).map_init_err(tagf(*t))),
        FNode::MapConfigF(a, add) => {
            let add = *add;
            boxed::factory(map_config(build_f(a), move |c: u16| c + add))
        }
        FNode::ApplyFnF(a, t) => boxed::factory(apply_fn_factory(build_f(a), apply_wrap(*t))),
        FNode::ApplyTransformF(id, t, a) => boxed::factory(apply(Tr { id: *id, tag: *t }, build_f(a))),
        FNode::BoxedF(a) => boxed::factory(build_f(a)),
        FNode::RcF(a) => boxed::factory(Rc::new(build_f(a))),
        FNode::FnFactory(i) => {
            let i = *i;
            boxed::factory(fn_factory_with_config(move |cfg: u16| LeafFactory(i).new_service(cfg)))
        }
        FNode::StaticF(k) => build_static_f(*k),
    }
}

fn build_static_f(k: u8) -> BoxFac {
    match k % 8 {
        0 => boxed::factory(LeafFactory(0).and_then(LeafFactory(1)).map_init_err(tagf(41)).map(tagf(42))),
        1 => boxed::factory(apply(Tr { id: 3, tag: 43 }, LeafFactory(0).and_then(LeafFactory(1)))),
        2 => boxed::factory(map_config(
            unit_config(map_config(LeafFactory(0).and_then(LeafFactory(1)), |_: ()| 7u16)),
            |c: u16| c + 1,
        )),
        3 => {
            // apply_cfg_factory: create the inner service (unit config), wait until it is ready,
            // then configure
            let inner = map_config(LeafFactory(0), |_: ()| 9u16);
            boxed::factory(apply_cfg_factory(inner, |cfg: u16, svc: &Leaf| {
                let svc = svc.clone();
                ApplyCfgFut(Some(svc.map(tagf(1000 + cfg))))
            }))
        }
        4 => boxed::factory(apply_cfg(Leaf(0), |cfg: u16, svc: &Leaf| ApplyCfgFut(Some(svc.clone().map(tagf(1000 + cfg)))))),
        5 => boxed::factory(map_config(
            Arc::new(fn_factory(|| LeafFactory(0).new_service(5)).and_then(map_config(LeafFactory(1), |_: ()| 6u16))),
            |_: u16| (),
        )),
        // Transform behind Rc / Arc (the wrappers forward new_transform)
        6 => boxed::factory(apply(Rc::new(Tr { id: 3, tag: 45 }), LeafFactory(0))),
        _ => boxed::factory(apply(Arc::new(Tr { id: 3, tag: 47 }), LeafFactory(0).and_then(LeafFactory(1)))),
    }
}

struct ApplyCfgFut<S>(Option<S>);
impl<S> Unpin for ApplyCfgFut<S> {}
impl<S> Future for ApplyCfgFut<S> {
    type Output = Result<S, V>;
    fn poll(mut self: Pin<&mut Self>, _: &mut Context<'_>) -> Poll<Self::Output> {
        Poll::Ready(Ok(self.0.take().expect("configure future polled after completion")))
    }
}

// ------------------------------------------------------------------------------------------------
// reference interpreter (service level)

impl Node {
    #[allow(non_snake_case)]
    fn TagReq(a: Box<Node>, t: u16) -> Node {
        // "tag the request, leave the response": ApplyFn tags both (t in, t+1 out); express the
        // request-only variant as a Wrapped node with an out-tag that the interpreter skips
        Node::Wrapped(Box::new(Node::Map(a, 0)), t)
    }
}

/// Ok/Err result with trace, plus the expected sequence of leaf calls.
fn eval_call(n: &Node, req: V, call_ok: &[u8], calls: &mut Vec<(usize, V)>) -> Result<V, V> {
    match n {
        Node::Leaf(i) => {
            calls.push((*i, req.clone()));
            let ok = (call_ok[*i] >> (req_id(&req) % 8)) & 1 == 1;
            let mut v = req;
            if ok {
                v.push(100 + *i as u16);
                Ok(v)
            } else {
                v.push(500 + *i as u16);
                Err(v)
            }
        }
        Node::AndThen(a, b) => {
            let r = eval_call(a, req, call_ok, calls)?;
            eval_call(b, r, call_ok, calls)
        }
        Node::Map(a, t) => eval_call(a, req, call_ok, calls).map(|mut v| {
            if *t != 0 {
                v.push(*t);
            }
            v
        }),
        Node::MapErr(a, t) => eval_call(a, req, call_ok, calls).map_err(|mut v| {
            v.push(*t);
            v
        }),
        Node::ApplyFn(a, t) => {
            let mut r = req;
            r.push(*t);
            eval_call(a, r, call_ok, calls).map(|mut v| {
                v.push(*t + 1);
                v
            })
        }
        Node::Wrapped(a, t) => {
            let mut r = req;
            r.push(*t);
            // Map(_, 0) below a Wrapped marks the static "request only" form
            let req_only = matches!(**a, Node::Map(_, 0));
            eval_call(a, r, call_ok, calls).map(|mut v| {
                if !req_only {
                    v.push(*t + 1);
                }
                v
            })
        }
        Node::Boxed(a) | Node::RcBoxed(a) | Node::RcW(a) | Node::RefCellW(a) | Node::BoxW(a) => eval_call(a, req, call_ok, calls),
        Node::Static(k) => eval_call(&static_shape(*k), req, call_ok, calls),
    }
}

#[derive(Debug, Clone, PartialEq)]
enum Rd {
    Ready,
    Pending,
    Err(V),
}

/// Reference readiness: conjunction over the leaves, first error (in left-to-right order) wins.
fn eval_ready(n: &Node, st: &[R]) -> Rd {
    match n {
        Node::Leaf(i) => match st[*i] {
            R::Ok => Rd::Ready,
            R::Pending => Rd::Pending,
            R::Err => Rd::Err(vec![900 + *i as u16]),
        },
        Node::AndThen(a, b) => match eval_ready(a, st) {
            Rd::Err(e) => Rd::Err(e),
            ra => match eval_ready(b, st) {
                Rd::Err(e) => Rd::Err(e),
                rb => {
                    if ra == Rd::Ready && rb == Rd::Ready {
                        Rd::Ready
                    } else {
                        Rd::Pending
                    }
                }
            },
        },
        Node::MapErr(a, t) => match eval_ready(a, st) {
            Rd::Err(mut e) => {
                e.push(*t);
                Rd::Err(e)
            }
            r => r,
        },
        Node::Map(a, _) | Node::ApplyFn(a, _) | Node::Wrapped(a, _) | Node::Boxed(a) | Node::RcBoxed(a) | Node::RcW(a) | Node::RefCellW(a) | Node::BoxW(a) => {
            eval_ready(a, st)
        }
        Node::Static(k) => eval_ready(&static_shape(*k), st),
    }
}

fn leaves_of(n: &Node, out: &mut Vec<usize>) {
    match n {
        Node::Leaf(i) => out.push(*i),
        Node::AndThen(a, b) => {
            leaves_of(a, out);
            leaves_of(b, out);
        }
        Node::Map(a, _) | Node::MapErr(a, _) | Node::ApplyFn(a, _) | Node::Wrapped(a, _) | Node::Boxed(a) | Node::RcBoxed(a) | Node::RcW(a) | Node::RefCellW(a) | Node::BoxW(a) => {
            leaves_of(a, out)
        }
        Node::Static(k) => leaves_of(&static_shape(*k), out),
    }
}

// ------------------------------------------------------------------------------------------------
// reference model for factory futures (poll level) — yields the shape of the service to expect

enum RefFut {
    Leaf(usize, u16),
    AndThen(Box<RefFut>, Box<RefFut>, Option<Node>, Option<Node>),
    MapSvc(Box<RefFut>, fn(Node, u16) -> Node, u16),
    MapInitErr(Box<RefFut>, u16),
    Transform(Option<Box<RefFut>>, usize, u16, Option<Node>),
    /// apply_cfg_factory: inner leaf factory, then wait for its readiness, then configure
    ApplyCfg(Option<Box<RefFut>>, Option<Node>, u16),
    Immediate(Node),
}

fn ref_of(n: &FNode, cfg: u16) -> RefFut {
    match n {
        FNode::LeafF(i) | FNode::FnFactory(i) => RefFut::Leaf(*i, cfg),
        FNode::AndThenF(a, b) => RefFut::AndThen(Box::new(ref_of(a, cfg)), Box::new(ref_of(b, cfg)), None, None),
        FNode::MapF(a, t) => RefFut::MapSvc(Box::new(ref_of(a, cfg)), |n, t| Node::Map(Box::new(n), t), *t),
        FNode::MapErrF(a, t) => RefFut::MapSvc(Box::new(ref_of(a, cfg)), |n, t| Node::MapErr(Box::new(n), t), *t),
        FNode::MapInitErrF(a, t) => RefFut::MapInitErr(Box::new(ref_of(a, cfg)), *t),
        FNode::MapConfigF(a, add) => ref_of(a, cfg + *add),
        FNode::ApplyFnF(a, t) => RefFut::MapSvc(Box::new(ref_of(a, cfg)), |n, t| Node::ApplyFn(Box::new(n), t), *t),
        FNode::ApplyTransformF(id, t, a) => RefFut::Transform(Some(Box::new(ref_of(a, cfg))), *id, *t, None),
        FNode::BoxedF(a) | FNode::RcF(a) => ref_of(a, cfg),
        FNode::StaticF(k) => {
            use FNode::*;
            let l = |i| Box::new(LeafF(i));
            match k % 8 {
                0 => ref_of(&MapF(Box::new(MapInitErrF(Box::new(AndThenF(l(0), l(1))), 41)), 42), cfg),
                1 => ref_of(&ApplyTransformF(3, 43, Box::new(AndThenF(l(0), l(1)))), cfg),
                2 => ref_of(&AndThenF(l(0), l(1)), 7),
                3 => RefFut::ApplyCfg(Some(Box::new(RefFut::Leaf(0, 9))), None, cfg),
                4 => RefFut::Immediate(Node::Map(Box::new(Node::Leaf(0)), 1000 + cfg)),
                5 => RefFut::AndThen(Box::new(RefFut::Leaf(0, 5)), Box::new(RefFut::Leaf(1, 6)), None, None),
                6 => ref_of(&ApplyTransformF(3, 45, l(0)), cfg),
                _ => ref_of(&ApplyTransformF(3, 47, Box::new(AndThenF(l(0), l(1)))), cfg),
            }
        }
    }
}

/// One poll of the reference future against the current leaf construction states.
/// `fstate(leaf)` = None while not advanced, Some(ok) once it will resolve.
fn ref_poll(f: &mut RefFut, fstate: &dyn Fn(usize) -> Option<bool>, ready: &dyn Fn(usize) -> R, started: &mut Vec<(usize, u16)>) -> Poll<Result<Node, V>> {
    match f {
        RefFut::Immediate(n) => Poll::Ready(Ok(n.clone())),
        RefFut::Leaf(i, cfg) => {
            if !started.iter().any(|(l, _)| l == i) {
                started.push((*i, *cfg));
            }
            match fstate(*i) {
                None => Poll::Pending,
                Some(true) => Poll::Ready(Ok(Node::Leaf(*i))),
                Some(false) => Poll::Ready(Err(vec![700 + *i as u16])),
            }
        }
        RefFut::AndThen(a, b, da, db) => {
            // both construction futures exist from the start
            note_started(a, started);
            note_started(b, started);
            if da.is_none() {
                match ref_poll(a, fstate, ready, started) {
                    Poll::Ready(Ok(n)) => *da = Some(n),
                    Poll::Ready(Err(e)) => return Poll::Ready(Err(e)),
                    Poll::Pending => {}
                }
            }
            if db.is_none() {
                match ref_poll(b, fstate, ready, started) {
                    Poll::Ready(Ok(n)) => *db = Some(n),
                    Poll::Ready(Err(e)) => return Poll::Ready(Err(e)),
                    Poll::Pending => {}
                }
            }
            if da.is_some() && db.is_some() {
                Poll::Ready(Ok(Node::AndThen(Box::new(da.take().unwrap()), Box::new(db.take().unwrap()))))
            } else {
                Poll::Pending
            }
        }
        RefFut::MapSvc(a, mk, t) => match ref_poll(a, fstate, ready, started) {
            Poll::Ready(Ok(n)) => Poll::Ready(Ok(mk(n, *t))),
            Poll::Ready(Err(e)) => Poll::Ready(Err(e)),
            Poll::Pending => Poll::Pending,
        },
        RefFut::MapInitErr(a, t) => match ref_poll(a, fstate, ready, started) {
            Poll::Ready(Err(mut e)) => {
                e.push(*t);
                Poll::Ready(Err(e))
            }
            r => r,
        },
        RefFut::Transform(inner, id, t, got) => {
            if got.is_none() {
                match ref_poll(inner.as_mut().unwrap(), fstate, ready, started) {
                    Poll::Ready(Ok(n)) => {
                        *got = Some(n);
                        started.push((*id, 0));
                    }
                    Poll::Ready(Err(e)) => return Poll::Ready(Err(e)),
                    Poll::Pending => return Poll::Pending,
                }
            }
            match fstate(*id) {
                None => Poll::Pending,
                Some(true) => Poll::Ready(Ok(Node::Wrapped(Box::new(got.take().unwrap()), *t))),
                Some(false) => Poll::Ready(Err(vec![700 + *id as u16])),
            }
        }
        RefFut::ApplyCfg(inner, got, cfg) => {
            if got.is_none() {
                match ref_poll(inner.as_mut().unwrap(), fstate, ready, started) {
                    Poll::Ready(Ok(n)) => *got = Some(n),
                    Poll::Ready(Err(e)) => return Poll::Ready(Err(e)),
                    Poll::Pending => return Poll::Pending,
                }
            }
            // wait until the freshly created service is ready (its readiness error is the init error)
            match ready(0) {
                R::Pending => Poll::Pending,
                R::Err => Poll::Ready(Err(vec![900])),
                R::Ok => Poll::Ready(Ok(Node::Map(Box::new(got.take().unwrap()), 1000 + *cfg))),
            }
        }
    }
}

fn note_started(f: &RefFut, started: &mut Vec<(usize, u16)>) {
    match f {
        RefFut::Leaf(i, cfg) => {
            if !started.iter().any(|(l, _)| l == i) {
                started.push((*i, *cfg));
            }
        }
        RefFut::AndThen(a, b, _, _) => {
            note_started(a, started);
            note_started(b, started);
        }
        RefFut::MapSvc(a, _, _) | RefFut::MapInitErr(a, _) => note_started(a, started),
        RefFut::Transform(Some(a), _, _, None) => note_started(a, started),
        RefFut::ApplyCfg(Some(a), None, _) => note_started(a, started),
        _ => {}
    }
}

// ------------------------------------------------------------------------------------------------
// generation

fn gen_node(rng: &mut Rng, depth: u32, leaves: usize) -> Node {
    if depth == 0 || rng.chance(1, 4) {
        return Node::Leaf(rng.usize_below(leaves));
    }
    let t = 10 + rng.below(10) as u16 * 2;
    match rng.below(12) {
        0..=3 => Node::AndThen(Box::new(gen_node(rng, depth - 1, leaves)), Box::new(gen_node(rng, depth - 1, leaves))),
        4 => Node::Map(Box::new(gen_node(rng, depth - 1, leaves)), t),
        5 => Node::MapErr(Box::new(gen_node(rng, depth - 1, leaves)), t),
        6 => Node::ApplyFn(Box::new(gen_node(rng, depth - 1, leaves)), t),
        7 => Node::Wrapped(Box::new(gen_node(rng, depth - 1, leaves)), t),
        8 => Node::Boxed(Box::new(gen_node(rng, depth - 1, leaves))),
        9 => Node::RcBoxed(Box::new(gen_node(rng, depth - 1, leaves))),
        10 => {
            if rng.chance(1, 2) {
                Node::RcW(Box::new(gen_node(rng, depth - 1, leaves)))
            } else {
                Node::RefCellW(Box::new(gen_node(rng, depth - 1, leaves)))
            }
        }
        _ => Node::BoxW(Box::new(gen_node(rng, depth - 1, leaves))),
    }
}

/// Factory trees use each leaf factory at most once (one construction per root new_service).
fn gen_fnode(rng: &mut Rng, depth: u32, next_leaf: &mut usize, max_leaves: usize) -> FNode {
    let fresh = |next_leaf: &mut usize| {
        let l = *next_leaf;
        *next_leaf += 1;
        l
    };
    if depth == 0 || rng.chance(1, 4) || *next_leaf + 2 >= max_leaves {
        let l = fresh(next_leaf);
        return if rng.chance(1, 5) { FNode::FnFactory(l) } else { FNode::LeafF(l) };
    }
    let t = 10 + rng.below(10) as u16 * 2;
    match rng.below(12) {
        0..=3 => {
            let a = gen_fnode(rng, depth - 1, next_leaf, max_leaves);
            let b = gen_fnode(rng, depth - 1, next_leaf, max_leaves);
            FNode::AndThenF(Box::new(a), Box::new(b))
        }
        4 => FNode::MapF(Box::new(gen_fnode(rng, depth - 1, next_leaf, max_leaves)), t),
        5 => FNode::MapErrF(Box::new(gen_fnode(rng, depth - 1, next_leaf, max_leaves)), t),
        6 => FNode::MapInitErrF(Box::new(gen_fnode(rng, depth - 1, next_leaf, max_leaves)), t),
        7 => FNode::MapConfigF(Box::new(gen_fnode(rng, depth - 1, next_leaf, max_leaves)), 1 + rng.below(3) as u16),
        8 => FNode::ApplyFnF(Box::new(gen_fnode(rng, depth - 1, next_leaf, max_leaves)), t),
        9 => {
            let inner = gen_fnode(rng, depth - 1, next_leaf, max_leaves);
            let id = fresh(next_leaf);
            FNode::ApplyTransformF(id, t, Box::new(inner))
        }
        10 => FNode::BoxedF(Box::new(gen_fnode(rng, depth - 1, next_leaf, max_leaves))),
        _ => FNode::RcF(Box::new(gen_fnode(rng, depth - 1, next_leaf, max_leaves))),
    }
}

// ------------------------------------------------------------------------------------------------
// the run

struct RootFut {
    fut: Option<Pin<Box<dyn Future<Output = Result<V, V>>>>>,
    task: TaskWake,
    parked: bool,
    req: V,
    expect: Result<V, V>,
    expect_calls: Vec<(usize, V)>,
    done: bool,
}

fn flush_log(ctx: &mut RunCtx) {
    let log = w(|x| std::mem::take(&mut x.log));
    for l in log {
        ev!(ctx, "{l}");
    }
}

fn run_sim(prop: &str, cfg: &Config, ch: &mut Chooser<Action>, ctx: &mut RunCtx) -> Option<Violation> {
    const NLEAF: usize = 8;
    w(|x| {
        *x = World::default();
        x.call_ok = cfg.call_ok.clone();
        x.fact_ok = cfg.fact_ok.clone();
        for _ in 0..NLEAF {
            x.leaves.push(LeafState {
                ready: R::Ok,
                ready_waker: None,
                ready_waker_epoch: 0,
                ready_polled_epoch: 0,
                calls: Vec::new(),
                new_service_cfgs: Vec::new(),
                fact: None,
            });
        }
    });
    let c12 = prop == "C12";

    // ---- phase 1 (factory mode): obtain the service through the real factory combinators
    let mut shape: Node = cfg.tree.clone();
    let mut svc: Option<BoxSvc> = None;
    if cfg.factory_mode {
        let fac = build_f(&cfg.ftree);
        let mut fut = fac.new_service(cfg.root_cfg);
        // the construction future owns what it needs: the factory may go away while it runs
        let _fac_kept = if cfg.drop_factory {
            drop(fac);
            ctx.bump("probe.factory_dropped_during_init");
            None
        } else {
            Some(fac)
        };
        let mut rf = ref_of(&cfg.ftree, cfg.root_cfg);
        let mut task = TaskWake::new();
        let mut parked = false;
        let mut started: Vec<(usize, u16)> = Vec::new();
        {
            // what the reference composition starts at once must have been started by
            // `new_service` itself, not by the first poll of the future it returned
            let mut eager: Vec<(usize, u16)> = Vec::new();
            note_started(&rf, &mut eager);
            for (leaf, c) in &eager {
                let got = w(|x| x.leaves[*leaf].new_service_cfgs.clone());
                if got != vec![*c] {
                    return Some(Violation::new(
                        "factory-start-deferred",
                        format!("new_service({}) has returned but inner factory {leaf} was asked to build with {got:?}; the reference composition asks it at once, with config {c}", cfg.root_cfg),
                    ));
                }
            }
            if !eager.is_empty() {
                ctx.bump("probe.eager_factory_start_checked");
            }
        }
        let mut polls = 0;
        let mut outcome: Option<Result<Node, V>> = None;
        let mut budget_left = true;
        while outcome.is_none() {
            let mut en: Vec<(Action, u32)> = Vec::new();
            if !parked || task.woken() {
                en.push((Action::PollFactFut, cfg.w_poll));
            } else if cfg.spurious > 0 {
                en.push((Action::SpuriousPollFactFut, cfg.spurious));
            }
            let pend: Vec<usize> = w(|x| {
                x.leaves
                    .iter()
                    .enumerate()
                    .filter(|(_, l)| l.fact.as_ref().map_or(false, |f| !f.advanced.get()))
                    .map(|(i, _)| i)
                    .collect()
            });
            for l in &pend {
                en.push((Action::AdvanceFact(*l), cfg.w_adv));
            }
            // readiness of leaf 0 matters to apply_cfg_factory
            if matches!(cfg.ftree, FNode::StaticF(k) if k % 8 == 3) {
                for (code, r) in [(0u8, R::Ok), (1, R::Pending), (2, R::Err)] {
                    if w(|x| x.leaves[0].ready) != r {
                        en.push((Action::SetReady(0, code), 1));
                    }
                }
            }
            let a = if budget_left {
                match ch.choose(&en) {
                    Some(a) => a,
                    None => {
                        budget_left = false;
                        continue;
                    }
                }
            } else {
                // drain: advance everything, make leaf 0 ready, poll when runnable
                if let Some(l) = pend.first() {
                    Action::AdvanceFact(*l)
                } else if w(|x| x.leaves[0].ready) == R::Pending {
                    Action::SetReady(0, 0)
                } else if !parked || task.woken() {
                    Action::PollFactFut
                } else {
                    flush_log(ctx);
                    return Some(Violation::new(
                        "stuck-future",
                        "every inner construction future has resolved and nothing is pending, but the factory future stays Pending un-woken",
                    ));
                }
            };
            match a {
                Action::AdvanceFact(l) => {
                    let wk = w(|x| {
                        let f = x.leaves[l].fact.as_ref().unwrap();
                        f.advanced.set(true);
                        f.waker.borrow_mut().take()
                    });
                    if let Some(wk) = wk {
                        wk.wake();
                    }
                    ev!(ctx, "advance factory {l}");
                }
                Action::SetReady(l, code) => {
                    let wk = w(|x| {
                        x.leaves[l].ready = [R::Ok, R::Pending, R::Err][code as usize];
                        x.leaves[l].ready_waker.take()
                    });
                    if let Some(wk) = wk {
                        wk.wake();
                    }
                    ev!(ctx, "ready {l} -> {code}");
                }
                Action::PollFactFut | Action::SpuriousPollFactFut => {
                    polls += 1;
                    let epoch = w(|x| {
                        x.epoch += 1;
                        x.epoch
                    });
                    // reference first (reads leaf states, consumes nothing)
                    let fstate = |l: usize| w(|x| x.leaves[l].fact.as_ref().and_then(|f| if f.advanced.get() { Some(f.ok) } else { None }));
                    let rstate = |l: usize| w(|x| x.leaves[l].ready);
                    // a leaf whose construction has not been started yet cannot have been advanced
                    let fstate2 = |l: usize| if w(|x| x.leaves[l].fact.is_some()) { fstate(l) } else { None };
                    let expect = ref_poll(&mut rf, &fstate2, &rstate, &mut started);
                    let (_f, wk) = task.fresh();
                    let mut cx = Context::from_waker(&wk);
                    let got = fut.as_mut().poll(&mut cx);
                    flush_log(ctx);
                    ev!(ctx, "poll factory future -> {}", match &got { Poll::Pending => "pending".to_string(), Poll::Ready(Ok(_)) => "service".to_string(), Poll::Ready(Err(e)) => format!("init error {e:?}") });
                    if let Some(v) = w(|x| x.violation.take()) {
                        return Some(v);
                    }
                    match (&got, &expect) {
                        (Poll::Pending, Poll::Pending) => {
                            parked = true;
                            ctx.bump("probe.factory_pending");
                            // some construction future polled in this poll is pending with this waker
                            let cause = w(|x| {
                                x.leaves.iter().any(|l| l.fact.as_ref().map_or(false, |f| !f.done.get() && f.waker_epoch.get() == epoch))
                                    || x.leaves[0].ready_waker_epoch == epoch
                            });
                            if !cause && c12 {
                                return Some(Violation::new("pending-without-cause", "the factory future returned Pending but no inner future polled in this poll is pending with the current waker"));
                            }
                            if c12 {
                                // every unfinished construction future that exists must hold the current waker
                                let stale = w(|x| {
                                    x.leaves.iter().enumerate().find(|(_, l)| l.fact.as_ref().map_or(false, |f| !f.done.get() && !f.advanced.get() && f.polled_epoch.get() != 0 && f.waker_epoch.get() != epoch)).map(|(i, _)| i)
                                });
                                if let Some(i) = stale {
                                    return Some(Violation::new(
                                        "waker-not-propagated",
                                        format!("factory future is Pending but the pending construction future of leaf {i} was not polled with the current waker"),
                                    ));
                                }
                            }
                        }
                        (Poll::Ready(Err(e)), Poll::Ready(Err(x))) if e == x => {
                            ctx.bump("probe.init_error");
                            outcome = Some(Err(e.clone()));
                        }
                        (Poll::Ready(Ok(_)), Poll::Ready(Ok(n))) => {
                            outcome = Some(Ok(n.clone()));
                        }
                        (g, e) => {
                            let gs = match g { Poll::Pending => "Pending".to_string(), Poll::Ready(Ok(_)) => "Ready(Ok(service))".into(), Poll::Ready(Err(e)) => format!("Ready(Err({e:?}))") };
                            let es = match e { Poll::Pending => "Pending".to_string(), Poll::Ready(Ok(_)) => "Ready(Ok(service))".into(), Poll::Ready(Err(e)) => format!("Ready(Err({e:?}))") };
                            return Some(Violation::new(
                                "factory-result",
                                format!("poll {polls} of the factory future returned {gs}, the reference composition says {es}"),
                            ));
                        }
                    }
                    if let Poll::Ready(Ok(s)) = got {
                        svc = Some(s);
                    }
                }
                _ => unreachable!(),
            }
            ctx.state(hash_u64s(&[polls as u64, parked as u64, pend.len() as u64, 17]));
        }
        // each inner factory built exactly once, with the supplied config
        let built: Vec<(usize, Vec<u16>)> = w(|x| x.leaves.iter().enumerate().filter(|(_, l)| !l.new_service_cfgs.is_empty()).map(|(i, l)| (i, l.new_service_cfgs.clone())).collect());
        for (leaf, cfgs) in &built {
            let want = started.iter().find(|(l, _)| l == leaf).map(|(_, c)| *c);
            if cfgs.len() != 1 || want.map_or(true, |c| c != cfgs[0]) {
                return Some(Violation::new(
                    "factory-config",
                    format!("inner factory {leaf} was built with configs {cfgs:?}; the reference expects exactly one build with {want:?}"),
                ));
            }
        }
        match outcome.unwrap() {
            Err(_) => {
                ctx.nontrivial = polls >= 2;
                return None;
            }
            Ok(n) => shape = n,
        }
    } else {
        svc = Some(build(&cfg.tree));
    }
    let mut svc = svc;
    let mut lv = Vec::new();
    leaves_of(&shape, &mut lv);
    lv.sort();
    lv.dedup();

    // ---- phase 2: exercise the service against the interpreter
    let mut ready_task = TaskWake::new();
    let mut ready_parked = false;
    let mut futs: Vec<RootFut> = Vec::new();
    let mut next_req: u16 = 1;
    let mut completed = 0;
    let mut pendings = 0;
    let mut draining = false;

    loop {
        let mut en: Vec<(Action, u32)> = Vec::new();
        if svc.is_some() {
            if !ready_parked || ready_task.woken() {
                en.push((Action::PollReady, cfg.w_poll));
            } else if cfg.spurious > 0 {
                en.push((Action::SpuriousPollReady, cfg.spurious));
            }
            if futs.len() < 4 {
                en.push((Action::Call, cfg.w_poll));
            }
            if cfg.drop_service && futs.iter().any(|f| f.fut.is_some()) {
                en.push((Action::DropService, 1));
            }
        }
        for (i, f) in futs.iter().enumerate() {
            if f.fut.is_some() {
                if !f.parked || f.task.woken() {
                    en.push((Action::PollFut(i), cfg.w_poll));
                } else if cfg.spurious > 0 {
                    en.push((Action::SpuriousPollFut(i), cfg.spurious));
                }
                if i % 3 == 2 {
                    en.push((Action::DropFut(i), 1));
                }
            }
        }
        for l in &lv {
            let cur = w(|x| x.leaves[*l].ready);
            for (code, r) in [(0u8, R::Ok), (1, R::Pending), (2, R::Err)] {
                if cur != r {
                    en.push((Action::SetReady(*l, code), if r == R::Err { 1 } else { cfg.w_adv }));
                }
            }
            let pend: Vec<usize> = w(|x| x.leaves[*l].calls.iter().enumerate().filter(|(_, c)| !c.advanced.get() && !c.dropped.get()).map(|(k, _)| k).collect());
            for k in pend {
                en.push((Action::AdvanceCall(*l, k), cfg.w_adv * 2));
            }
        }
        let a = if !draining {
            match ch.choose(&en) {
                Some(a) => a,
                None => {
                    draining = true;
                    continue;
                }
            }
        } else {
            // drain: let every call finish
            let mut pick = None;
            for (a, _) in &en {
                match a {
                    Action::AdvanceCall(..) | Action::PollFut(_) => {
                        pick = Some(a.clone());
                        break;
                    }
                    _ => {}
                }
            }
            match pick {
                Some(a) => a,
                None => break,
            }
        };
        match a {
            Action::SetReady(l, code) => {
                let wk = w(|x| {
                    x.leaves[l].ready = [R::Ok, R::Pending, R::Err][code as usize];
                    x.leaves[l].ready_waker.take()
                });
                if let Some(wk) = wk {
                    wk.wake();
                }
                ev!(ctx, "ready {l} -> {code}");
            }
            Action::AdvanceCall(l, k) => {
                let wk = w(|x| {
                    let c = &x.leaves[l].calls[k];
                    c.advanced.set(true);
                    c.waker.borrow_mut().take()
                });
                if let Some(wk) = wk {
                    wk.wake();
                }
                ev!(ctx, "advance call {k} of leaf {l}");
            }
            Action::PollReady | Action::SpuriousPollReady => {
                let epoch = w(|x| {
                    x.epoch += 1;
                    x.epoch
                });
                let st: Vec<R> = w(|x| x.leaves.iter().map(|l| l.ready).collect());
                let expect = eval_ready(&shape, &st);
                let (_f, wk) = ready_task.fresh();
                let mut cx = Context::from_waker(&wk);
                let got = svc.as_ref().unwrap().poll_ready(&mut cx);
                let gotr = match &got {
                    Poll::Pending => Rd::Pending,
                    Poll::Ready(Ok(())) => Rd::Ready,
                    Poll::Ready(Err(e)) => Rd::Err(e.clone()),
                };
                ev!(ctx, "poll_ready -> {gotr:?}");
                ready_parked = gotr == Rd::Pending;
                if c12 {
                    if gotr != expect {
                        let class = match (&gotr, &expect) {
                            (Rd::Ready, _) => "ready-too-early",
                            (Rd::Pending, Rd::Ready) => "pending-when-ready",
                            (_, Rd::Err(_)) | (Rd::Err(_), _) => "readiness-error-wrong",
                            _ => "readiness-wrong",
                        };
                        return Some(Violation::new(
                            class,
                            format!("poll_ready returned {gotr:?}; with leaf readiness {:?} the reference says {expect:?}", lv.iter().map(|l| (l, st[*l])).collect::<Vec<_>>()),
                        ));
                    }
                    match gotr {
                        Rd::Pending => {
                            ctx.bump("probe.ready_pending");
                            // no lost wake-up: every still-pending inner service holds the waker of this call
                            for l in &lv {
                                let (r, we) = w(|x| (x.leaves[*l].ready, x.leaves[*l].ready_waker_epoch));
                                if r == R::Pending && we != epoch {
                                    return Some(Violation::new(
                                        "waker-not-propagated",
                                        format!("poll_ready returned Pending but pending leaf {l} was not polled with the current waker"),
                                    ));
                                }
                            }
                        }
                        Rd::Ready => {
                            for l in &lv {
                                let pe = w(|x| x.leaves[*l].ready_polled_epoch);
                                if pe != epoch {
                                    return Some(Violation::new(
                                        "ready-without-asking",
                                        format!("poll_ready returned Ready(Ok) without polling inner service {l} in this call"),
                                    ));
                                }
                            }
                            ctx.bump("probe.ready_ok");
                        }
                        Rd::Err(_) => ctx.bump("probe.ready_err"),
                    }
                }
            }
            Action::Call => {
                let req = vec![next_req];
                next_req += 1;
                let mut calls = Vec::new();
                let expect = eval_call(&shape, req.clone(), &cfg.call_ok, &mut calls);
                let fut = svc.as_ref().unwrap().call(req.clone());
                flush_log(ctx);
                ev!(ctx, "call {req:?}");
                if let Some((leaf, trace)) = calls.first() {
                    // the first stage is invoked by `call` itself (requests reach it in call
                    // order, whatever the order in which the returned futures are polled)
                    let there = w(|x| x.call_log.iter().any(|(l, r)| l == leaf && r == trace));
                    if !there {
                        return Some(Violation::new(
                            "call-deferred",
                            format!("call({req:?}) has returned but the first stage (leaf {leaf}) has not been invoked with {trace:?}"),
                        ));
                    }
                }
                futs.push(RootFut { fut: Some(fut), task: TaskWake::new(), parked: false, req, expect, expect_calls: calls, done: false });
            }
            Action::PollFut(i) | Action::SpuriousPollFut(i) => {
                let epoch = w(|x| {
                    x.epoch += 1;
                    x.epoch
                });
                let f = &mut futs[i];
                let (_fl, wk) = f.task.fresh();
                let mut cx = Context::from_waker(&wk);
                let got = f.fut.as_mut().unwrap().as_mut().poll(&mut cx);
                flush_log(ctx);
                if let Some(v) = w(|x| x.violation.take()) {
                    return Some(v);
                }
                let id = req_id(&f.req);
                let actual_calls: Vec<(usize, V)> = w(|x| x.call_log.iter().filter(|(_, r)| req_id(r) == id).cloned().collect());
                match got {
                    Poll::Pending => {
                        f.parked = true;
                        pendings += 1;
                        ev!(ctx, "poll fut {i} -> pending");
                        if !f.expect_calls.starts_with(&actual_calls) {
                            return Some(stage_violation(&f.expect_calls, &actual_calls));
                        }
                        if c12 {
                            let cause = w(|x| x.leaves.iter().flat_map(|l| l.calls.iter()).any(|c| req_id(&c.req) == id && !c.done.get() && c.waker_epoch.get() == epoch));
                            if !cause {
                                return Some(Violation::new(
                                    "pending-without-cause",
                                    format!("the future of call {:?} returned Pending but no inner future polled in this poll is pending with the current waker", f.req),
                                ));
                            }
                        }
                    }
                    Poll::Ready(r) => {
                        ev!(ctx, "poll fut {i} -> {r:?}");
                        f.fut = None;
                        f.done = true;
                        completed += 1;
                        if r != f.expect {
                            return Some(
                                Violation::new(
                                    "wrong-result",
                                    format!("call {:?} resolved with {r:?}; the reference composition yields {:?}", f.req, f.expect),
                                )
                                .fact("factory", cfg.factory_mode),
                            );
                        }
                        if actual_calls != f.expect_calls {
                            return Some(stage_violation(&f.expect_calls, &actual_calls));
                        }
                        ctx.bump(if r.is_ok() { "probe.call_ok" } else { "probe.call_err" });
                    }
                }
            }
            Action::DropService => {
                svc = None;
                ctx.bump("probe.service_dropped_with_calls_in_flight");
                ev!(ctx, "drop the service");
            }
            Action::DropFut(i) => {
                futs[i].fut = None;
                ctx.bump("probe.future_cancelled");
                ev!(ctx, "drop fut {i}");
            }
            _ => unreachable!(),
        }
        if let Some(v) = w(|x| x.violation.take()) {
            return Some(v);
        }
        ctx.state(hash_u64s(&[
            futs.iter().filter(|f| f.fut.is_some()).count() as u64,
            ready_parked as u64,
            w(|x| x.leaves.iter().map(|l| l.ready as u64).fold(0, |a, b| a * 3 + b)),
            completed as u64,
        ]));
    }
    // after the drain every un-cancelled call has resolved
    for f in &futs {
        if f.fut.is_some() {
            return Some(Violation::new(
                "stuck-future",
                format!("every inner future of call {:?} has completed but the combined future is still Pending and un-woken", f.req),
            ));
        }
    }
    ctx.nontrivial = completed >= 1 && (pendings >= 1 || cfg.factory_mode);
    None
}

fn stage_violation(expect: &[(usize, V)], actual: &[(usize, V)]) -> Violation {
    let class = if actual.len() > expect.len() || actual.iter().enumerate().any(|(i, a)| actual[..i].contains(a)) {
        "stage-called-twice"
    } else {
        "wrong-stage-calls"
    };
    Violation::new(class, format!("inner services were called as {actual:?}; the reference composition calls {expect:?}"))
}

// ------------------------------------------------------------------------------------------------

pub struct SvcSim;

impl Engine for SvcSim {
    type Config = Config;
    type Action = Action;
    const NAME: &'static str = "svcsim";

    fn properties() -> &'static [&'static str] {
        &["C11", "C12"]
    }
    fn level(_: &str) -> &'static str {
        "exploration"
    }
    fn budget(_: &str, tier: Tier) -> (u64, u64) {
        match tier {
            Tier::Quick => (6_000_000, 45),
            Tier::Thorough => (200_000_000, 600),
        }
    }
    fn gen_config(_prop: &str, _tier: Tier, rng: &mut Rng) -> Config {
        let factory_mode = rng.chance(2, 5);
        let leaves = rng.range(1, 4) as usize;
        let tree = if rng.chance(1, 8) { Node::Static(rng.below(6) as u8) } else { gen_node(rng, 3, leaves) };
        let mut next_leaf = 0;
        let ftree = if rng.chance(1, 5) { FNode::StaticF(rng.below(8) as u8) } else { gen_fnode(rng, 3, &mut next_leaf, 8) };
        Config {
            factory_mode,
            tree,
            ftree,
            leaves,
            call_ok: (0..8).map(|_| if rng.chance(1, 2) { 0xFF } else { rng.next_u64() as u8 }).collect(),
            fact_ok: (0..8).map(|_| !rng.chance(1, 6)).collect(),
            root_cfg: rng.range(0, 3) as u16,
            max_actions: rng.range(4, 45) as usize,
            spurious: *rng.pick(&[0, 0, 1, 2]),
            w_adv: *rng.pick(&[1, 2, 4]),
            w_poll: *rng.pick(&[2, 4, 6]),
            drop_service: rng.chance(1, 3),
            drop_factory: rng.chance(1, 3),
        }
    }
    fn max_actions(_: &str, cfg: &Config) -> usize {
        cfg.max_actions
    }
    fn run(prop: &str, cfg: &Config, ch: &mut Chooser<Action>, ctx: &mut RunCtx) -> Option<Violation> {
        let v = run_sim(prop, cfg, ch, ctx);
        flush_log(ctx);
        w(|x| *x = World::default());
        v
    }
    fn describe(prop: &str) -> Describe {
        Describe {
            rule: format!(
                "random combinator trees up to depth 3 over and_then / map / map_err / apply_fn / Transform-wrapped / boxed::service / boxed::rc_service / Rc / RefCell / Box (type-erased between nodes with the crate's own boxed wrappers) plus 6 fully static nestings (one of them a service that re-enters its own RefCell handle from inside call), and factory trees over and_then / map / map_err / map_init_err / map_config / apply_fn_factory / apply(Transform) / boxed::factory / Rc / fn_factory_with_config plus 6 static ones (unit_config, apply_cfg, apply_cfg_factory, fn_factory, Arc); scripted leaves whose readiness, call and construction futures advance only by simulator actions (with a wake); strict-wake executor with a fresh waker per poll; {}; non-trivial = >=1 call completed and >=1 Pending poll (or a factory run); distinct = distinct event-trace hash",
                if prop == "C11" {
                    "oracle = tree interpreter: result value with trace, exact sequence of inner calls (also for calls that outlive the service: in a third of the runs the service may be dropped while calls are in flight, in a third the factory is dropped before its construction future is first polled), one build per inner factory with the supplied config, first init error"
                } else {
                    "oracle = readiness conjunction / error propagation from the interpreter, waker-coverage rule for every pending leaf, no poll after completion, no stage twice, Pending only with a cause"
                }
            ),
            real: vec!["actix-service combinators: and_then, map, map_err, map_init_err, map_config, unit_config, apply_fn, apply_fn_factory, apply (Transform), apply_cfg, apply_cfg_factory, boxed::{service, rc_service, factory}, fn_factory(_with_config), Rc/Arc/RefCell/Box wrappers"],
            stub: vec!["leaf services, factories and transforms (scripted)", "executor (strict-wake manual polling)"],
            assumptions: vec!["request/response/error are traced vectors so that each mapper application is visible", "sampling, not exhaustive enumeration"],
        }
    }
    fn required_probes(prop: &str, _tier: Tier) -> Vec<&'static str> {
        if prop == "C11" {
            vec!["probe.call_ok", "probe.call_err", "probe.init_error", "probe.factory_pending", "probe.service_dropped_with_calls_in_flight", "probe.factory_dropped_during_init"]
        } else {
            vec!["probe.ready_pending", "probe.ready_ok", "probe.ready_err", "probe.factory_pending", "probe.future_cancelled"]
        }
    }
}

fn main() {
    simcore::main_for::<SvcSim>()
}
