//! chansim — C16 (local-channel mpsc) and C17 (actix-utils Counter, LocalWaker) under a
//! strict-wake executor: seeded interleavings of sender/receiver/guard operations against small
//! reference models. Real code: local-channel, local-waker, actix-utils::counter (unmodified).

use std::{
    collections::VecDeque,
    pin::Pin,
    sync::Arc,
    task::{Context, Poll},
};

use actix_utils::counter::{Counter, CounterGuard};
use futures_core::Stream;
use futures_sink::Sink;
use local_channel::mpsc;
use local_waker::LocalWaker;
use serde::{Deserialize, Serialize};
use simcore::{
    ev,
    runner::hash_u64s,
    wake::{waker, TaskWake, WakeFlag},
    Chooser, Describe, Engine, Rng, RunCtx, Tier, Violation,
};

#[derive(Serialize, Deserialize, Clone, Debug, PartialEq)]
pub enum Mode {
    Channel,
    Counter,
    LocalWaker,
}

#[derive(Serialize, Deserialize, Clone, Debug)]
pub struct Config {
    mode: Mode,
    max_actions: usize,
    capacity: usize,
    /// weight of spurious polls (legal re-polls without a wake-up), 0 = none
    spurious: u32,
    w_send: u32,
    w_close: u32,
    w_drop: u32,
    w_poll: u32,
    /// bursts of 33..100 sends / receives are part of the alphabet
    #[serde(default)]
    burst: bool,
}

#[derive(Serialize, Deserialize, Clone, Debug, PartialEq)]
pub enum Action {
    // channel
    Send(usize),
    SinkSend(usize),
    CloneSender(usize),
    DropSender(usize),
    Close(usize),
    PollRecv,
    SpuriousPollRecv,
    /// spurious poll with the very same waker as the previous poll
    RepollSameWaker,
    /// sender s is dropped by the unwinding of a (caught) panic
    DropSenderInPanic(usize),
    /// receive through `Receiver::recv()` futures, each polled once and then dropped
    RecvFutMany(usize),
    /// `{:?}` of the channel ends / counter / waker (formatting must not change anything)
    DebugFormat,
    /// guard g is dropped by the unwinding of a (caught) panic
    DropGuardInPanic(usize),
    SenderFromReceiver,
    DropReceiver,
    /// n plain sends in a row through sender s
    SendMany(usize, usize),
    /// up to n polls in a row while messages come out
    RecvMany(usize),
    // counter
    Acquire(usize),
    DropGuard(usize),
    Available(usize, usize),
    SpuriousAvailable(usize, usize),
    /// the refused task asks again with the very same waker
    AvailableSameWaker(usize, usize),
    /// a task whose waker, when woken, asks the counter again at once (synchronously, inside
    /// `wake()`) queries the counter
    AvailableReentrant,
    CloneCounter,
    // local waker
    Register(usize),
    Wake,
    Take(bool),
}

pub struct ChanSim;

impl Engine for ChanSim {
    type Config = Config;
    type Action = Action;
    const NAME: &'static str = "chansim";

    fn properties() -> &'static [&'static str] {
        &["C16", "C17"]
    }
    fn level(_: &str) -> &'static str {
        "exploration"
    }
    fn budget(_prop: &str, tier: Tier) -> (u64, u64) {
        match tier {
            Tier::Quick => (20_000_000, 40),
            Tier::Thorough => (400_000_000, 600),
        }
    }
    fn gen_config(prop: &str, tier: Tier, rng: &mut Rng) -> Config {
        let long = tier == Tier::Thorough && rng.chance(1, 3);
        let mode = if prop == "C16" {
            Mode::Channel
        } else if rng.chance(3, 4) {
            Mode::Counter
        } else {
            Mode::LocalWaker
        };
        Config {
            max_actions: match (&mode, long) {
                (Mode::LocalWaker, _) => rng.range(2, 8) as usize,
                (_, false) => rng.range(3, 12) as usize,
                (_, true) => rng.range(12, 40) as usize,
            },
            mode,
            capacity: rng.range(0, 3) as usize,
            spurious: *rng.pick(&[0, 0, 1, 3]),
            w_send: *rng.pick(&[1, 3, 6]),
            w_close: *rng.pick(&[0, 1, 2]),
            w_drop: *rng.pick(&[1, 2, 4]),
            w_poll: *rng.pick(&[2, 4, 8]),
            burst: rng.chance(1, 8),
        }
    }
    fn max_actions(_: &str, cfg: &Config) -> usize {
        cfg.max_actions
    }
    fn run(prop: &str, cfg: &Config, ch: &mut Chooser<Action>, ctx: &mut RunCtx) -> Option<Violation> {
        let _ = prop;
        match cfg.mode {
            Mode::Channel => run_channel(cfg, ch, ctx),
            Mode::Counter => run_counter(cfg, ch, ctx),
            Mode::LocalWaker => run_local_waker(cfg, ch, ctx),
        }
    }
    fn shrink_config(_: &str, cfg: &Config) -> Vec<Config> {
        let mut v = Vec::new();
        if cfg.capacity > 0 && cfg.mode == Mode::Counter {
            let mut c = cfg.clone();
            c.capacity -= 1;
            v.push(c);
        }
        v
    }
    fn describe(prop: &str) -> Describe {
        Describe {
            rule: if prop == "C16" {
                "seeded operation sequences (3..12 ops quick, up to 40 thorough) over {send, Sink send, clone/drop sender, close, poll receiver (strict-wake: only when never polled or woken; spurious polls — with a fresh waker or with the very same waker again — are separate counted actions), sender-from-receiver, drop receiver; in an eighth of the runs also bursts of 33/40/100 sends and of back-to-back receives} with <=3 live senders, checked op by op against a FIFO queue model; non-trivial = at least one message received and at least one Pending poll; distinct = distinct hash of the abstract event trace".into()
            } else {
                "seeded operation sequences over {acquire guard, drop any live guard, query available from task i (strict-wake; also again with the very same waker), query from a task whose waker asks again from inside wake(), clone counter} for capacities 0..3, and {register w_i, wake, take} on a LocalWaker, checked op by op against a counter / slot model; non-trivial = at least one refusal and one release (counter) or one register and one wake/take (LocalWaker); distinct = distinct event-trace hash".into()
            },
            real: vec!["local-channel::mpsc", "local-waker::LocalWaker", "actix-utils::counter::{Counter,CounterGuard}"],
            stub: vec!["executor (strict-wake manual polling with counting wakers)"],
            assumptions: vec!["single-threaded use (types are !Send)", "sampling, not exhaustive enumeration"],
        }
    }
    fn required_probes(prop: &str, _tier: Tier) -> Vec<&'static str> {
        if prop == "C16" {
            vec!["probe.recv_parked_then_woken_by_send", "probe.end_of_stream_seen", "probe.close_with_parked_receiver", "probe.last_sender_dropped_with_parked_receiver", "probe.recv_streak_over_32", "probe.repoll_same_waker", "probe.dropped_by_unwinding", "probe.recv_futures"]
        } else {
            vec!["probe.release_wakes_refused_task", "probe.refused", "probe.localwaker_wake_fired", "probe.reentrant_wake", "probe.requery_same_waker", "probe.dropped_by_unwinding"]
        }
    }
}

fn main() {
    simcore::main_for::<ChanSim>()
}

// ------------------------------------------------------------------------------------------------
// C16

fn run_channel(cfg: &Config, ch: &mut Chooser<Action>, ctx: &mut RunCtx) -> Option<Violation> {
    let (tx, rx) = mpsc::channel::<u32>();
    let mut senders: Vec<mpsc::Sender<u32>> = vec![tx];
    let mut rx = Some(rx);
    // reference model
    let mut queue: VecDeque<u32> = VecDeque::new();
    let mut closed = false;
    let mut next_val = 0u32;
    // receiver task
    let mut task = TaskWake::new();
    let mut parked = false; // last poll returned Pending
    let mut received = 0u32;
    let mut pendings = 0u32;
    let mut ended_seen = false;

    loop {
        // enabled set in canonical order
        let mut en: Vec<(Action, u32)> = Vec::new();
        for s in 0..senders.len() {
            en.push((Action::Send(s), cfg.w_send));
            en.push((Action::SinkSend(s), 1));
            if senders.len() < 3 {
                en.push((Action::CloneSender(s), 1));
            }
            en.push((Action::DropSender(s), cfg.w_drop));
            if cfg.w_close > 0 {
                en.push((Action::Close(s), cfg.w_close));
            }
            if cfg.w_drop > 1 {
                en.push((Action::DropSenderInPanic(s), 1));
            }
            if cfg.burst && s == 0 {
                en.push((Action::SendMany(0, *[33usize, 40, 100].get(next_val as usize % 3).unwrap()), cfg.w_send));
            }
        }
        if rx.is_some() {
            if cfg.burst && (!parked || task.woken()) && queue.len() > 8 {
                en.push((Action::RecvMany(queue.len() + 1), cfg.w_poll));
                en.push((Action::RecvFutMany(queue.len() + 1), cfg.w_poll));
            }
            en.push((Action::DebugFormat, 1));
            if !parked || task.woken() {
                en.push((Action::PollRecv, cfg.w_poll));
            } else if cfg.spurious > 0 {
                en.push((Action::SpuriousPollRecv, cfg.spurious));
                en.push((Action::RepollSameWaker, cfg.spurious));
            }
            if senders.len() < 3 {
                en.push((Action::SenderFromReceiver, 1));
            }
            en.push((Action::DropReceiver, 1));
        }
        let Some(a) = ch.choose(&en) else { break };

        // was a parked receiver woken by this action? (checked for the actions the property names)
        let parked_before = rx.is_some() && parked && !task.woken();
        let mut must_wake: Option<&'static str> = None;

        match a {
            Action::Send(s) | Action::SinkSend(s) => {
                next_val += 1;
                let v = next_val;
                let res_ok = if matches!(a, Action::Send(_)) {
                    senders[s].send(v).is_ok()
                } else {
                    let f = WakeFlag::new(0);
                    let w = waker(&f);
                    let mut cx = Context::from_waker(&w);
                    let mut p = Pin::new(&mut senders[s]);
                    if !matches!(p.as_mut().poll_ready(&mut cx), Poll::Ready(Ok(()))) {
                        return Some(Violation::new("sink-contract", "Sender::poll_ready not Ready(Ok)"));
                    }
                    let r = p.as_mut().start_send(v).is_ok();
                    if !matches!(p.as_mut().poll_flush(&mut cx), Poll::Ready(Ok(()))) {
                        return Some(Violation::new("sink-contract", "Sender::poll_flush not Ready(Ok)"));
                    }
                    r
                };
                let expect_ok = rx.is_some() && !closed;
                ev!(ctx, "send s{s} v{v} -> {}", if res_ok { "ok" } else { "err" });
                if res_ok != expect_ok {
                    return Some(
                        Violation::new(
                            "send-result",
                            format!("send returned {} but receiver_alive={} closed={closed}", if res_ok { "Ok" } else { "Err" }, rx.is_some()),
                        )
                        .fact("got", if res_ok { "ok" } else { "err" }),
                    );
                }
                if res_ok {
                    queue.push_back(v);
                    must_wake = Some("send");
                }
            }
            Action::SendMany(s, n) => {
                let expect_ok = rx.is_some() && !closed;
                for _ in 0..n {
                    next_val += 1;
                    let ok = senders[s].send(next_val).is_ok();
                    if ok != expect_ok {
                        return Some(Violation::new("send-result", format!("send returned ok={ok} but receiver_alive={} closed={closed}", rx.is_some())).fact("got", if ok { "ok" } else { "err" }));
                    }
                    if ok {
                        queue.push_back(next_val);
                        must_wake = Some("send");
                    }
                }
                ctx.bump("probe.send_burst");
                ev!(ctx, "send burst s{s} x{n}");
            }
            Action::CloneSender(s) => {
                let c = senders[s].clone();
                senders.push(c);
                ev!(ctx, "clone s{s}");
            }
            Action::DropSender(s) | Action::DropSenderInPanic(s) => {
                let last = senders.len() == 1;
                let victim = senders.remove(s);
                if matches!(a, Action::DropSenderInPanic(_)) {
                    ctx.bump("probe.dropped_by_unwinding");
                    let r = std::panic::catch_unwind(std::panic::AssertUnwindSafe(move || {
                        let _held = victim;
                        std::panic::resume_unwind(Box::new("verif: unwinding with a sender on the stack"));
                    }));
                    let _ = r;
                } else {
                    drop(victim);
                }
                ev!(ctx, "drop s{s} last={last}");
                if last {
                    must_wake = Some("drop-last-sender");
                }
            }
            Action::Close(s) => {
                senders[s].close();
                ev!(ctx, "close s{s}");
                if !closed {
                    must_wake = Some("close");
                }
                closed = true;
            }
            Action::DebugFormat => {
                let txt = format!("{:?} {:?}", rx.as_ref().map(|r| format!("{r:?}").len()), senders.iter().map(|s| format!("{s:?}").len()).collect::<Vec<_>>());
                ev!(ctx, "debug-format ({} chars)", txt.len());
            }
            Action::RecvFutMany(n) => {
                ctx.bump("probe.recv_futures");
                for _ in 0..n {
                    let (_flag, w) = task.fresh();
                    let mut cx = Context::from_waker(&w);
                    let r = {
                        let mut f = Box::pin(rx.as_mut().unwrap().recv());
                        std::future::Future::poll(f.as_mut(), &mut cx)
                        // the future is dropped here: a cancelled recv() must not take a message along
                    };
                    let expect: Poll<Option<u32>> = if let Some(v) = queue.front() {
                        Poll::Ready(Some(*v))
                    } else if closed || senders.is_empty() {
                        Poll::Ready(None)
                    } else {
                        Poll::Pending
                    };
                    if r != expect {
                        return Some(Violation::new(
                            if matches!(r, Poll::Pending) { "pending-with-data" } else { "poll-result" },
                            format!("recv() polled once returned {r:?}, model expects {expect:?} (queue length {})", queue.len()),
                        ));
                    }
                    match r {
                        Poll::Ready(Some(_)) => {
                            queue.pop_front();
                            received += 1;
                            parked = false;
                        }
                        Poll::Ready(None) => {
                            parked = false;
                            break;
                        }
                        Poll::Pending => {
                            parked = true;
                            pendings += 1;
                            break;
                        }
                    }
                }
            }
            Action::SenderFromReceiver => {
                let s = rx.as_ref().unwrap().sender();
                senders.push(s);
                ev!(ctx, "sender-from-receiver");
            }
            Action::DropReceiver => {
                rx = None;
                queue.clear();
                parked = false;
                ev!(ctx, "drop receiver");
            }
            Action::PollRecv | Action::SpuriousPollRecv | Action::RepollSameWaker | Action::RecvMany(_) => {
                if matches!(a, Action::SpuriousPollRecv | Action::RepollSameWaker) {
                    ctx.bump("spurious_polls");
                } else if parked {
                    ctx.bump("probe.recv_parked_then_woken_by_send");
                }
                let reps = if let Action::RecvMany(n) = a { n } else { 1 };
                let mut streak = 0usize;
                for _ in 0..reps {
                let (_flag, w) = match (&a, task.same()) {
                    (Action::RepollSameWaker, Some(fw)) => {
                        ctx.bump("probe.repoll_same_waker");
                        fw
                    }
                    _ => task.fresh(),
                };
                let mut cx = Context::from_waker(&w);
                let r = Pin::new(rx.as_mut().unwrap()).poll_next(&mut cx);
                let expect: Poll<Option<u32>> = if let Some(v) = queue.front() {
                    Poll::Ready(Some(*v))
                } else if closed || senders.is_empty() {
                    Poll::Ready(None)
                } else {
                    Poll::Pending
                };
                ev!(ctx, "poll -> {:?}", r);
                if r != expect {
                    let class = match (&r, &expect) {
                        (Poll::Pending, Poll::Ready(None)) => "no-end-of-stream",
                        (Poll::Pending, Poll::Ready(Some(_))) => "pending-with-data",
                        (Poll::Ready(None), Poll::Ready(Some(_))) => "lost",
                        (Poll::Ready(None), Poll::Pending) => "ended-while-open",
                        (Poll::Ready(Some(x)), _) if *x <= next_val && !queue.contains(x) => "dup",
                        (Poll::Ready(Some(_)), _) => "fifo",
                        _ => "poll-result",
                    };
                    return Some(
                        Violation::new(
                            class,
                            format!("poll_next returned {r:?}, model expects {expect:?} (queue={queue:?} closed={closed} senders={})", senders.len()),
                        )
                        .fact("closed", closed)
                        .fact("senders_alive", !senders.is_empty()),
                    );
                }
                match r {
                    Poll::Ready(Some(_)) => {
                        queue.pop_front();
                        received += 1;
                        parked = false;
                    }
                    Poll::Ready(None) => {
                        ended_seen = true;
                        parked = false;
                        ctx.bump("probe.end_of_stream_seen");
                    }
                    Poll::Pending => {
                        parked = true;
                        pendings += 1;
                    }
                }
                if !matches!(r, Poll::Ready(Some(_))) {
                    break;
                }
                streak += 1;
                if streak == 33 {
                    ctx.bump("probe.recv_streak_over_32");
                }
                }
            }
            _ => unreachable!("not a channel action"),
        }

        if let Some(after) = must_wake {
            if parked_before {
                match after {
                    "close" => ctx.bump("probe.close_with_parked_receiver"),
                    "drop-last-sender" => ctx.bump("probe.last_sender_dropped_with_parked_receiver"),
                    _ => {}
                }
                if !task.woken() {
                    return Some(
                        Violation::new(
                            "receiver-not-woken",
                            format!("receiver parked in poll_next was not woken by {after} (closed={closed}, senders={})", senders.len()),
                        )
                        .fact("after", after),
                    );
                }
            }
        }
        ctx.state(hash_u64s(&[
            queue.len() as u64,
            senders.len() as u64,
            closed as u64,
            rx.is_some() as u64,
            parked as u64,
            task.woken() as u64,
        ]));
    }

    // quiescence: a parked, un-woken receiver must have nothing to do
    if rx.is_some() && parked && !task.woken() && (!queue.is_empty() || closed || senders.is_empty()) {
        return Some(
            Violation::new(
                "lost-wakeup",
                format!("at quiescence the receiver is parked un-woken but the model has queue={queue:?} closed={closed} senders={}", senders.len()),
            )
            .fact("closed", closed),
        );
    }
    let _ = ended_seen;
    ctx.nontrivial = received >= 1 && pendings >= 1;
    None
}

// ------------------------------------------------------------------------------------------------
// C17 — Counter

fn run_counter(cfg: &Config, ch: &mut Chooser<Action>, ctx: &mut RunCtx) -> Option<Violation> {
    let cap = cfg.capacity;
    let mut counters = vec![Counter::new(cap)];
    let mut guards: Vec<CounterGuard> = Vec::new();
    const TASKS: usize = 2;
    let mut tasks: Vec<TaskWake> = (0..TASKS).map(|_| TaskWake::new()).collect();
    let mut refused_state = [false; TASKS]; // last answer to task t was "unavailable"
    // model: the registration that a release must wake
    let mut registered: Option<(usize, Arc<WakeFlag>)> = None;
    let mut refusals = 0u32;
    let mut releases = 0u32;
    let reent = Reentrant::new(counters[0].clone());
    // the re-entrant task is the registered one
    let mut reent_registered = false;

    loop {
        let mut en: Vec<(Action, u32)> = Vec::new();
        for k in 0..counters.len() {
            if guards.len() < cap + 3 {
                en.push((Action::Acquire(k), cfg.w_send));
            }
        }
        for g in 0..guards.len() {
            en.push((Action::DropGuard(g), cfg.w_drop));
        }
        for t in 0..TASKS {
            for k in 0..counters.len() {
                if !refused_state[t] || tasks[t].woken() {
                    en.push((Action::Available(t, k), cfg.w_poll));
                } else if cfg.spurious > 0 {
                    en.push((Action::SpuriousAvailable(t, k), cfg.spurious));
                    en.push((Action::AvailableSameWaker(t, k), cfg.spurious));
                }
            }
        }
        en.push((Action::AvailableReentrant, 1));
        en.push((Action::DebugFormat, 1));
        for g in 0..guards.len() {
            if cfg.w_drop > 1 {
                en.push((Action::DropGuardInPanic(g), 1));
            }
        }
        if counters.len() < 3 {
            en.push((Action::CloneCounter, 1));
        }
        let Some(a) = ch.choose(&en) else { break };
        match a {
            Action::Acquire(k) => {
                guards.push(counters[k].get());
                ev!(ctx, "acquire via c{k} -> live {}", guards.len());
            }
            Action::DebugFormat => {
                let n: usize = counters.iter().map(|c| format!("{c:?}").len()).sum::<usize>() + guards.iter().map(|g| format!("{g:?}").len()).sum::<usize>();
                ev!(ctx, "debug-format ({n} chars)");
            }
            Action::DropGuard(g) | Action::DropGuardInPanic(g) => {
                let pre = guards.len();
                let before = registered.as_ref().map(|(_, f)| f.count());
                let answers_before = reent.answers.borrow().len();
                let victim = guards.remove(g);
                if matches!(a, Action::DropGuardInPanic(_)) {
                    ctx.bump("probe.dropped_by_unwinding");
                    let _ = std::panic::catch_unwind(std::panic::AssertUnwindSafe(move || {
                        let _held = victim;
                        std::panic::resume_unwind(Box::new("verif: unwinding with a guard on the stack"));
                    }));
                } else {
                    drop(victim);
                }
                releases += 1;
                ev!(ctx, "drop guard {g} -> live {}", guards.len());
                if pre == cap && reent_registered {
                    // woken inside the drop, the task asked again at once: the count it sees is
                    // already the new one
                    reent_registered = false;
                    let answers: Vec<bool> = reent.answers.borrow()[answers_before..].to_vec();
                    ctx.bump("probe.reentrant_wake");
                    if answers != vec![true] {
                        return Some(Violation::new(
                            "reentrant-wake-sees-old-count",
                            format!("guard drop took the count from {pre} to {} (capacity {cap}); the task that asks again from inside its wake-up got the answers {answers:?}, expected one 'available'", pre - 1),
                        ));
                    }
                } else if reent.answers.borrow().len() != answers_before {
                    return Some(Violation::new("wake-accounting", "the re-entrant task was woken by a guard drop that did not bring the count below the capacity, or while it was not the registered task"));
                }
                if pre == cap && registered.is_some() {
                    // count falls below capacity: the most recently refused task must be woken once
                    if let Some((t, f)) = registered.take() {
                        ctx.bump("probe.release_wakes_refused_task");
                        let delta = f.count() - before.unwrap();
                        if delta != 1 {
                            return Some(
                                Violation::new(
                                    "no-wake-on-release",
                                    format!("guard drop took the count from {pre} to {} (capacity {cap}) but task {t}, the last one refused, was woken {delta} times", pre - 1),
                                )
                                .fact("wakes", delta),
                            );
                        }
                    }
                }
            }
            Action::AvailableReentrant => {
                let w = reent.waker();
                let cx = Context::from_waker(&w);
                let r = counters[0].available(&cx);
                let expect = guards.len() < cap;
                ev!(ctx, "available (re-entrant task) -> {r}");
                if r != expect {
                    return Some(Violation::new("available-wrong", format!("available() = {r} with {} live guards and capacity {cap}", guards.len())));
                }
                if !r {
                    refusals += 1;
                    reent_registered = true;
                    registered = None;
                }
            }
            Action::Available(t, k) | Action::SpuriousAvailable(t, k) | Action::AvailableSameWaker(t, k) => {
                let (flag, w) = match (&a, tasks[t].same()) {
                    (Action::AvailableSameWaker(..), Some(fw)) => {
                        ctx.bump("probe.requery_same_waker");
                        fw
                    }
                    _ => tasks[t].fresh(),
                };
                let cx = Context::from_waker(&w);
                let r = counters[k].available(&cx);
                let expect = guards.len() < cap;
                ev!(ctx, "available task{t} via c{k} -> {r}");
                if r != expect {
                    return Some(Violation::new(
                        "available-wrong",
                        format!("available() = {r} with {} live guards and capacity {cap}", guards.len()),
                    ));
                }
                refused_state[t] = !r;
                if !r {
                    refusals += 1;
                    ctx.bump("probe.refused");
                    registered = Some((t, flag));
                    reent_registered = false;
                }
            }
            Action::CloneCounter => {
                let c = counters[0].clone();
                counters.push(c);
                ev!(ctx, "clone counter");
            }
            _ => unreachable!("not a counter action"),
        }
        for (k, c) in counters.iter().enumerate() {
            if c.total() != guards.len() {
                return Some(Violation::new(
                    "total-wrong",
                    format!("total() of clone {k} = {} but {} guards are alive", c.total(), guards.len()),
                ));
            }
        }
        ctx.state(hash_u64s(&[
            cap as u64,
            guards.len() as u64,
            registered.as_ref().map_or(9, |r| r.0 as u64),
            refused_state[0] as u64,
            refused_state[1] as u64,
        ]));
    }
    ctx.nontrivial = refusals >= 1 && releases >= 1;
    *reent.counter.borrow_mut() = None;
    None
}

/// A task whose waker re-polls the counter synchronously from inside `wake()`. Single-threaded by
/// construction (`Counter` is `!Send`), hence a hand-made `RawWaker` over an `Rc`.
struct Reentrant {
    /// emptied at the end of a run (the counter may hold this task's waker: a cycle otherwise)
    counter: std::cell::RefCell<Option<Counter>>,
    answers: std::cell::RefCell<Vec<bool>>,
}

impl Reentrant {
    fn new(counter: Counter) -> std::rc::Rc<Self> {
        std::rc::Rc::new(Reentrant { counter: std::cell::RefCell::new(Some(counter)), answers: Default::default() })
    }

    fn waker(self: &std::rc::Rc<Self>) -> std::task::Waker {
        use std::task::{RawWaker, RawWakerVTable};
        unsafe fn clone(p: *const ()) -> RawWaker {
            std::rc::Rc::<Reentrant>::increment_strong_count(p as *const Reentrant);
            RawWaker::new(p, &VT)
        }
        unsafe fn wake(p: *const ()) {
            wake_by_ref(p);
            drop_w(p);
        }
        unsafe fn wake_by_ref(p: *const ()) {
            let me = std::mem::ManuallyDrop::new(std::rc::Rc::<Reentrant>::from_raw(p as *const Reentrant));
            let w = me.waker();
            let cx = Context::from_waker(&w);
            let c = me.counter.borrow().clone();
            if let Some(c) = c {
                let r = c.available(&cx);
                me.answers.borrow_mut().push(r);
            }
        }
        unsafe fn drop_w(p: *const ()) {
            std::rc::Rc::<Reentrant>::decrement_strong_count(p as *const Reentrant);
        }
        static VT: RawWakerVTable = RawWakerVTable::new(clone, wake, wake_by_ref, drop_w);
        let p = std::rc::Rc::into_raw(self.clone()) as *const ();
        // SAFETY: the vtable functions treat the pointer as an `Rc<Reentrant>` they own one strong
        // count of; the waker never leaves this thread.
        unsafe { std::task::Waker::from_raw(RawWaker::new(p, &VT)) }
    }
}

// ------------------------------------------------------------------------------------------------
// C17 — LocalWaker

fn run_local_waker(_cfg: &Config, ch: &mut Chooser<Action>, ctx: &mut RunCtx) -> Option<Violation> {
    let lw = LocalWaker::new();
    let flags = [WakeFlag::new(0), WakeFlag::new(1)];
    let wakers = [waker(&flags[0]), waker(&flags[1])];
    let mut model: Option<usize> = None;
    let mut expect_counts = [0u64; 2];
    let mut regs = 0;
    let mut fires = 0;
    loop {
        let en = vec![
            (Action::Register(0), 3),
            (Action::Register(1), 3),
            (Action::Wake, 3),
            (Action::Take(true), 1),
            (Action::Take(false), 1),
            (Action::DebugFormat, 1),
        ];
        let Some(a) = ch.choose(&en) else { break };
        match a {
            Action::Register(i) => {
                let was = lw.register(&wakers[i]);
                ev!(ctx, "register w{i} -> {was}");
                if was != model.is_some() {
                    return Some(Violation::new(
                        "register-result",
                        format!("register returned {was} but model slot was {model:?}"),
                    ));
                }
                model = Some(i);
                regs += 1;
            }
            Action::DebugFormat => {
                let n = format!("{lw:?}").len();
                ev!(ctx, "debug-format ({n} chars)");
            }
            Action::Wake => {
                lw.wake();
                ev!(ctx, "wake");
                if let Some(i) = model.take() {
                    expect_counts[i] += 1;
                    fires += 1;
                    ctx.bump("probe.localwaker_wake_fired");
                }
            }
            Action::Take(fire) => {
                let w = lw.take();
                ev!(ctx, "take -> {}", w.is_some());
                if w.is_some() != model.is_some() {
                    return Some(Violation::new(
                        "take-result",
                        format!("take returned is_some={} but model slot was {model:?}", w.is_some()),
                    ));
                }
                if let (Some(w), Some(i)) = (w, model.take()) {
                    if fire {
                        w.wake();
                        expect_counts[i] += 1;
                        fires += 1;
                    }
                }
            }
            _ => unreachable!(),
        }
        for i in 0..2 {
            if flags[i].count() != expect_counts[i] {
                return Some(Violation::new(
                    "wake-accounting",
                    format!("waker {i} fired {} times, model expects {}", flags[i].count(), expect_counts[i]),
                ));
            }
        }
        ctx.state(hash_u64s(&[model.map_or(9, |m| m as u64), 77]));
    }
    ctx.nontrivial = regs >= 1 && fires >= 1;
    None
}
