//! iosim — C13 (Framed decoding independent of arrival pattern) and C14 (Framed writes lossless,
//! ordered, bounded; close flushes) over a simulator-owned transport with scripted chunking,
//! `Pending`, short/zero writes and I/O errors. Real code: actix-codec `Framed`, `LinesCodec`,
//! `BytesCodec` (unmodified); the length-prefixed codec is a harness partner.

use std::{
    collections::VecDeque,
    io,
    pin::Pin,
    task::{Context, Poll, Waker},
};

use actix_codec::{BytesCodec, Decoder, Encoder, Framed, LinesCodec};
use bytes::{Buf, BufMut, Bytes, BytesMut};
use futures_core::Stream;
use futures_sink::Sink;
use serde::{Deserialize, Serialize};
use simcore::{ev, runner::hash_u64s, wake::TaskWake, Chooser, Describe, Engine, Rng, RunCtx, Tier, Violation};
use tokio::io::{AsyncRead, AsyncWrite, ReadBuf};

const LW: usize = 1024;
const HW: usize = 8 * 1024;

#[derive(Serialize, Deserialize, Clone, Debug, PartialEq)]
pub enum Codec {
    Lines,
    Bytes,
    LenPrefix,
    /// LenPrefix plus one end-of-stream frame produced by `decode_eof` from an empty buffer
    LenTrailer,
    /// the same framing by a stateful decoder that consumes the 2-byte header as soon as it is
    /// there (returning `Ok(None)` while it does so) and remembers the length
    LenEager,
}

#[derive(Serialize, Deserialize, Clone, Debug)]
pub struct Config {
    codec: Codec,
    stream_seed: u64,
    stream_len: usize,
    long: bool,
    /// C13: allow one injected read error; C14: allow write/flush/shutdown errors and zero writes
    faults: bool,
    max_actions: usize,
    spurious: u32,
    w_feed: u32,
    w_poll: u32,
    #[serde(default)]
    rebuild: bool,
    /// kind of the injected read error: 0 ConnectionReset, 1 Interrupted, 2 TimedOut
    #[serde(default)]
    read_err_kind: u8,
    /// C13: this many leading bytes of the stream are already in the read buffer at construction
    #[serde(default)]
    preload: usize,
    /// C13: the Sink face (flush / close, nothing buffered) is polled in between reads
    #[serde(default)]
    sink_ops: bool,
}

#[derive(Serialize, Deserialize, Clone, Debug, PartialEq)]
pub enum Action {
    // C13
    Feed(usize),
    FeedEof,
    FeedErr,
    PollNext,
    SpuriousPollNext,
    // C14
    StartSend(usize),
    PollReady,
    PollFlush,
    PollClose,
    Spurious(u8),
    WPlan(usize),
    WPending,
    WZero,
    WErr,
    /// the next write fails with ErrorKind::Interrupted (nothing written)
    WIntr,
    /// the next n writes accept k bytes each
    WTrickle(usize, usize),
    FlushPlan(u8),
    ShutdownPlan(u8),
    FireWaker,
    /// take the Framed apart and put it together again (0 replace_codec, 1 into_map_codec,
    /// 2 into_map_io, 3 into_parts/from_parts): both buffers travel along
    Rebuild(u8),
}

// ------------------------------------------------------------------------------------------------
// transport

#[derive(Debug)]
enum ReadEv {
    Chunk(Vec<u8>),
    Err(u8),
    Eof,
}

const READ_ERR_MSG: &str = "injected read error";

#[derive(Debug, Clone, Copy, PartialEq)]
enum WPlan {
    Accept(usize),
    Pending,
    Zero,
    Err,
    Intr,
}

#[derive(Debug, Clone, Copy, PartialEq)]
enum OpPlan {
    Ok,
    Pending,
    Err,
}

#[derive(Default)]
struct SimIo {
    // read side
    rq: VecDeque<ReadEv>,
    eof_latched: bool,
    read_waker: Option<Waker>,
    reads: u64,
    read_pendings: u64,
    // write side
    written: Vec<u8>,
    wplans: VecDeque<WPlan>,
    fplans: VecDeque<OpPlan>,
    splans: VecDeque<OpPlan>,
    write_waker: Option<Waker>,
    /// log of transport results in the current Sink call
    call_log: Vec<&'static str>,
    flushed_after_last_write: bool,
    shutdown_ok: bool,
    writes_after_shutdown: bool,
}

impl AsyncRead for SimIo {
    fn poll_read(mut self: Pin<&mut Self>, cx: &mut Context<'_>, buf: &mut ReadBuf<'_>) -> Poll<io::Result<()>> {
        self.reads += 1;
        if buf.remaining() == 0 {
            return Poll::Ready(Ok(()));
        }
        match self.rq.pop_front() {
            None => {
                if self.eof_latched {
                    return Poll::Ready(Ok(()));
                }
                self.read_pendings += 1;
                self.read_waker = Some(cx.waker().clone());
                Poll::Pending
            }
            Some(ReadEv::Chunk(mut c)) => {
                let n = c.len().min(buf.remaining());
                buf.put_slice(&c[..n]);
                if n < c.len() {
                    c.drain(..n);
                    self.rq.push_front(ReadEv::Chunk(c));
                }
                Poll::Ready(Ok(()))
            }
            Some(ReadEv::Err(k)) => Poll::Ready(Err(io::Error::new(
                [io::ErrorKind::ConnectionReset, io::ErrorKind::Interrupted, io::ErrorKind::TimedOut][k as usize % 3],
                READ_ERR_MSG,
            ))),
            Some(ReadEv::Eof) => {
                self.eof_latched = true;
                Poll::Ready(Ok(()))
            }
        }
    }
}

impl AsyncWrite for SimIo {
    fn poll_write(mut self: Pin<&mut Self>, cx: &mut Context<'_>, buf: &[u8]) -> Poll<io::Result<usize>> {
        if self.shutdown_ok {
            self.writes_after_shutdown = true;
        }
        let plan = self.wplans.pop_front().unwrap_or(WPlan::Accept(usize::MAX));
        match plan {
            WPlan::Accept(k) => {
                let n = k.min(buf.len()).max(if buf.is_empty() { 0 } else { 1 });
                self.written.extend_from_slice(&buf[..n]);
                self.flushed_after_last_write = false;
                self.call_log.push("w-ok");
                Poll::Ready(Ok(n))
            }
            WPlan::Pending => {
                self.write_waker = Some(cx.waker().clone());
                self.call_log.push("w-pending");
                Poll::Pending
            }
            WPlan::Zero => {
                self.call_log.push("w-zero");
                Poll::Ready(Ok(0))
            }
            WPlan::Err => {
                self.call_log.push("w-err");
                Poll::Ready(Err(io::Error::new(io::ErrorKind::BrokenPipe, "injected write error")))
            }
            WPlan::Intr => {
                self.call_log.push("w-intr");
                Poll::Ready(Err(io::Error::new(io::ErrorKind::Interrupted, "injected EINTR")))
            }
        }
    }

    fn poll_flush(mut self: Pin<&mut Self>, cx: &mut Context<'_>) -> Poll<io::Result<()>> {
        match self.fplans.pop_front().unwrap_or(OpPlan::Ok) {
            OpPlan::Ok => {
                self.flushed_after_last_write = true;
                self.call_log.push("f-ok");
                Poll::Ready(Ok(()))
            }
            OpPlan::Pending => {
                self.write_waker = Some(cx.waker().clone());
                self.call_log.push("f-pending");
                Poll::Pending
            }
            OpPlan::Err => {
                self.call_log.push("f-err");
                Poll::Ready(Err(io::Error::new(io::ErrorKind::BrokenPipe, "injected flush error")))
            }
        }
    }

    fn poll_shutdown(mut self: Pin<&mut Self>, cx: &mut Context<'_>) -> Poll<io::Result<()>> {
        match self.splans.pop_front().unwrap_or(OpPlan::Ok) {
            OpPlan::Ok => {
                self.shutdown_ok = true;
                self.call_log.push("s-ok");
                Poll::Ready(Ok(()))
            }
            OpPlan::Pending => {
                self.write_waker = Some(cx.waker().clone());
                self.call_log.push("s-pending");
                Poll::Pending
            }
            OpPlan::Err => {
                self.call_log.push("s-err");
                Poll::Ready(Err(io::Error::new(io::ErrorKind::BrokenPipe, "injected shutdown error")))
            }
        }
    }
}

// ------------------------------------------------------------------------------------------------
// the harness codec: u16 big-endian length prefix, decode error on the poison length, and a
// non-trivial decode_eof (a truncated tail is delivered as a final short frame)

#[derive(Debug, Clone, Copy, Default)]
struct LenPrefix;

const POISON: usize = 0xFFFF;

impl Decoder for LenPrefix {
    type Item = Vec<u8>;
    type Error = io::Error;

    fn decode(&mut self, src: &mut BytesMut) -> Result<Option<Vec<u8>>, io::Error> {
        if src.len() < 2 {
            return Ok(None);
        }
        let n = u16::from_be_bytes([src[0], src[1]]) as usize;
        if n == POISON {
            src.advance(2);
            return Err(io::Error::new(io::ErrorKind::InvalidData, "poison length"));
        }
        if src.len() < 2 + n {
            return Ok(None);
        }
        src.advance(2);
        Ok(Some(src.split_to(n).to_vec()))
    }

    fn decode_eof(&mut self, src: &mut BytesMut) -> Result<Option<Vec<u8>>, io::Error> {
        match self.decode(src)? {
            Some(f) => Ok(Some(f)),
            None if src.is_empty() => Ok(None),
            None => {
                let mut tail = src.split().to_vec();
                tail.insert(0, b'~');
                Ok(Some(tail))
            }
        }
    }
}

/// Items of exactly this size are refused by the length-prefixed encoders (before anything is
/// written to the buffer): a fallible encoder.
const REFUSED_SIZE: usize = 4242;

impl Encoder<Bytes> for LenPrefix {
    type Error = io::Error;
    fn encode(&mut self, item: Bytes, dst: &mut BytesMut) -> Result<(), io::Error> {
        if item.len() == REFUSED_SIZE {
            return Err(io::Error::new(io::ErrorKind::InvalidInput, "item refused by the encoder"));
        }
        dst.put_u16(item.len().min(0xFFFE) as u16);
        dst.extend_from_slice(&item[..item.len().min(0xFFFE)]);
        Ok(())
    }
}

/// The same framing, stateful: when the stream is over `decode_eof` yields one trailer frame from
/// the empty buffer (a codec's "stream ended" marker) and only then `None`.
#[derive(Debug, Clone, Copy, Default)]
struct LenTrailer {
    trailer_sent: bool,
}

impl Decoder for LenTrailer {
    type Item = Vec<u8>;
    type Error = io::Error;

    fn decode(&mut self, src: &mut BytesMut) -> Result<Option<Vec<u8>>, io::Error> {
        LenPrefix.decode(src)
    }

    fn decode_eof(&mut self, src: &mut BytesMut) -> Result<Option<Vec<u8>>, io::Error> {
        match LenPrefix.decode_eof(src)? {
            Some(f) => Ok(Some(f)),
            None if !self.trailer_sent => {
                self.trailer_sent = true;
                Ok(Some(b"#trailer".to_vec()))
            }
            None => Ok(None),
        }
    }
}

#[derive(Debug, Clone, Copy, Default)]
struct LenEager {
    need: Option<usize>,
}

impl Decoder for LenEager {
    type Item = Vec<u8>;
    type Error = io::Error;

    fn decode(&mut self, src: &mut BytesMut) -> Result<Option<Vec<u8>>, io::Error> {
        if self.need.is_none() {
            if src.len() < 2 {
                return Ok(None);
            }
            let n = u16::from_be_bytes([src[0], src[1]]) as usize;
            src.advance(2);
            if n == POISON {
                return Err(io::Error::new(io::ErrorKind::InvalidData, "poison length"));
            }
            self.need = Some(n);
        }
        let n = self.need.unwrap();
        if src.len() < n {
            return Ok(None);
        }
        self.need = None;
        Ok(Some(src.split_to(n).to_vec()))
    }

    fn decode_eof(&mut self, src: &mut BytesMut) -> Result<Option<Vec<u8>>, io::Error> {
        match self.decode(src)? {
            Some(f) => Ok(Some(f)),
            None if src.is_empty() && self.need.is_none() => Ok(None),
            None => {
                // a frame cut short by the end of the stream: what there is, marked
                self.need = None;
                let mut tail = src.split().to_vec();
                tail.insert(0, b'~');
                Ok(Some(tail))
            }
        }
    }
}

impl Encoder<Bytes> for LenEager {
    type Error = io::Error;
    fn encode(&mut self, item: Bytes, dst: &mut BytesMut) -> Result<(), io::Error> {
        LenPrefix.encode(item, dst)
    }
}

impl Encoder<Bytes> for LenTrailer {
    type Error = io::Error;
    fn encode(&mut self, item: Bytes, dst: &mut BytesMut) -> Result<(), io::Error> {
        LenPrefix.encode(item, dst)
    }
}

// ------------------------------------------------------------------------------------------------
// items, type-erased over the codecs

#[derive(Debug, Clone, PartialEq)]
enum Item {
    Frame(Vec<u8>),
    DecodeErr,
    IoErr,
    End,
}

fn gen_stream(cfg: &Config) -> Vec<u8> {
    let mut rng = Rng::new(cfg.stream_seed);
    let mut out = Vec::with_capacity(cfg.stream_len);
    match cfg.codec {
        Codec::Lines => {
            // lines of mixed lengths; alphabet contains the delimiters and UTF-8 fragments
            while out.len() < cfg.stream_len {
                let ll = if cfg.long {
                    *rng.pick(&[0usize, 1, 3, 50, 700, 1023, 1024, 1025, 3000, 8191, 8192, 8193, 9000, 20000])
                } else {
                    rng.range(0, 6) as usize
                };
                for _ in 0..ll {
                    let b = if cfg.long {
                        b'a' + rng.below(26) as u8
                    } else {
                        *rng.pick(&[b'a', b'b', b'\r', 0xC3, 0xA9, 0xFF, b'c'])
                    };
                    out.push(b);
                }
                if rng.chance(1, 5) {
                    out.push(b'\r');
                }
                out.push(b'\n');
            }
            out.truncate(cfg.stream_len);
        }
        Codec::Bytes => {
            for i in 0..cfg.stream_len {
                out.push((i as u8).wrapping_mul(31).wrapping_add(rng.below(3) as u8));
            }
        }
        Codec::LenPrefix | Codec::LenTrailer | Codec::LenEager => {
            while out.len() < cfg.stream_len {
                let n = if cfg.long {
                    *rng.pick(&[0usize, 1, 2, 100, 1021, 1022, 1023, 4000, 8189, 8190, 8191, 9000, 30000])
                } else {
                    rng.range(0, 5) as usize
                };
                if !cfg.long && rng.chance(1, 40) {
                    out.extend_from_slice(&(POISON as u16).to_be_bytes());
                    continue;
                }
                out.extend_from_slice(&(n as u16).to_be_bytes());
                for i in 0..n {
                    out.push((i as u8) ^ (n as u8));
                }
            }
            out.truncate(cfg.stream_len);
        }
    }
    out
}

/// Reference: the same codec applied to the undivided stream (decode errors are items and decoding
/// goes on behind them), then its end-of-stream frames. Second result: for every item of the
/// decode phase, the stream offset at which it is complete.
fn reference<D: Decoder>(mut codec: D, stream: &[u8], conv: impl Fn(D::Item) -> Vec<u8>) -> (Vec<Item>, Vec<usize>) {
    let mut buf = BytesMut::from(stream);
    let mut out = Vec::new();
    let mut end_off = Vec::new();
    for _ in 0..(stream.len() + 4) {
        match codec.decode(&mut buf) {
            Ok(Some(f)) => out.push(Item::Frame(conv(f))),
            Ok(None) => break,
            Err(_) => out.push(Item::DecodeErr),
        }
        end_off.push(stream.len() - buf.len());
    }
    for _ in 0..(stream.len() + 4) {
        match codec.decode_eof(&mut buf) {
            Ok(Some(f)) => out.push(Item::Frame(conv(f))),
            Ok(None) => {
                out.push(Item::End);
                return (out, end_off);
            }
            Err(_) => out.push(Item::DecodeErr),
        }
    }
    (out, end_off)
}

trait ErasedFramed {
    fn poll_item(&mut self, cx: &mut Context<'_>) -> Poll<Item>;
    fn io(&mut self) -> &mut SimIo;
    fn start_send(&mut self, item: Vec<u8>) -> Result<(), io::Error>;
    fn poll_ready(&mut self, cx: &mut Context<'_>) -> Poll<Result<(), io::Error>>;
    fn poll_flush(&mut self, cx: &mut Context<'_>) -> Poll<Result<(), io::Error>>;
    fn poll_close(&mut self, cx: &mut Context<'_>) -> Poll<Result<(), io::Error>>;
    fn encode_ref(&mut self, item: &[u8], dst: &mut BytesMut);
    fn rebuild(&mut self, how: u8);
}

fn map_item<T>(r: Poll<Option<Result<T, io::Error>>>, conv: impl Fn(T) -> Vec<u8>) -> Poll<Item> {
    match r {
        Poll::Pending => Poll::Pending,
        Poll::Ready(None) => Poll::Ready(Item::End),
        Poll::Ready(Some(Ok(f))) => Poll::Ready(Item::Frame(conv(f))),
        Poll::Ready(Some(Err(e))) => Poll::Ready(if e.to_string().contains(READ_ERR_MSG) {
            Item::IoErr
        } else {
            Item::DecodeErr
        }),
    }
}

macro_rules! erased {
    ($name:ident, $codec:ty, $mk:expr, $conv:expr, $toitem:expr, $itemty:ty) => {
        struct $name(Pin<Box<Framed<SimIo, $codec>>>);
        impl ErasedFramed for $name {
            fn poll_item(&mut self, cx: &mut Context<'_>) -> Poll<Item> {
                map_item(self.0.as_mut().poll_next(cx), $conv)
            }
            fn io(&mut self) -> &mut SimIo {
                self.0.as_mut().get_mut().io_mut()
            }
            fn start_send(&mut self, item: Vec<u8>) -> Result<(), io::Error> {
                let it: $itemty = $toitem(item);
                Sink::<$itemty>::start_send(self.0.as_mut(), it)
            }
            fn poll_ready(&mut self, cx: &mut Context<'_>) -> Poll<Result<(), io::Error>> {
                Sink::<$itemty>::poll_ready(self.0.as_mut(), cx)
            }
            fn poll_flush(&mut self, cx: &mut Context<'_>) -> Poll<Result<(), io::Error>> {
                Sink::<$itemty>::poll_flush(self.0.as_mut(), cx)
            }
            fn poll_close(&mut self, cx: &mut Context<'_>) -> Poll<Result<(), io::Error>> {
                Sink::<$itemty>::poll_close(self.0.as_mut(), cx)
            }
            fn encode_ref(&mut self, item: &[u8], dst: &mut BytesMut) {
                let mut c: $codec = $mk;
                let it: $itemty = $toitem(item.to_vec());
                let _ = Encoder::<$itemty>::encode(&mut c, it, dst);
            }
            fn rebuild(&mut self, how: u8) {
                let spare: $codec = $mk;
                let old = *Pin::into_inner(std::mem::replace(&mut self.0, Box::pin(Framed::new(SimIo::default(), spare))));
                let new = match how {
                    0 => {
                        let fresh: $codec = $mk;
                        old.replace_codec(fresh)
                    }
                    1 => old.into_map_codec(|c| c),
                    2 => old.into_map_io(|io| io),
                    _ => Framed::from_parts(old.into_parts()),
                };
                self.0 = Box::pin(new);
            }
        }
    };
}

erased!(FLines, LinesCodec, LinesCodec::default(), |s: String| s.into_bytes(), |v: Vec<u8>| String::from_utf8(v).unwrap(), String);
erased!(FBytes, BytesCodec, BytesCodec, |b: BytesMut| b.to_vec(), |v: Vec<u8>| Bytes::from(v), Bytes);
erased!(FLen, LenPrefix, LenPrefix, |v: Vec<u8>| v, |v: Vec<u8>| Bytes::from(v), Bytes);
erased!(FLenTr, LenTrailer, LenTrailer::default(), |v: Vec<u8>| v, |v: Vec<u8>| Bytes::from(v), Bytes);
erased!(FLenEager, LenEager, LenEager::default(), |v: Vec<u8>| v, |v: Vec<u8>| Bytes::from(v), Bytes);

fn make(codec: &Codec) -> Box<dyn ErasedFramed> {
    make_with(codec, &[])
}

/// `pre`: bytes that are already in the read buffer when the Framed is put together
/// (`FramedParts::with_read_buf`, as after a protocol upgrade).
fn make_with(codec: &Codec, pre: &[u8]) -> Box<dyn ErasedFramed> {
    use actix_codec::FramedParts;
    macro_rules! mk {
        ($c:expr) => {
            if pre.is_empty() {
                Box::pin(Framed::new(SimIo::default(), $c))
            } else {
                Box::pin(Framed::from_parts(FramedParts::with_read_buf(SimIo::default(), $c, BytesMut::from(pre))))
            }
        };
    }
    match codec {
        Codec::Lines => Box::new(FLines(mk!(LinesCodec::default()))),
        Codec::Bytes => Box::new(FBytes(mk!(BytesCodec))),
        Codec::LenPrefix => Box::new(FLen(mk!(LenPrefix))),
        Codec::LenTrailer => Box::new(FLenTr(mk!(LenTrailer::default()))),
        Codec::LenEager => Box::new(FLenEager(mk!(LenEager::default()))),
    }
}

// ------------------------------------------------------------------------------------------------
// C13

fn run_c13(cfg: &Config, ch: &mut Chooser<Action>, ctx: &mut RunCtx) -> Option<Violation> {
    let stream = gen_stream(cfg);
    let (expect, end_off): (Vec<Item>, Vec<usize>) = match cfg.codec {
        Codec::Lines => reference(LinesCodec::default(), &stream, |s: String| s.into_bytes()),
        Codec::Bytes => reference(BytesCodec, &stream, |b: BytesMut| b.to_vec()),
        Codec::LenPrefix => reference(LenPrefix, &stream, |v: Vec<u8>| v),
        Codec::LenTrailer => reference(LenTrailer::default(), &stream, |v: Vec<u8>| v),
        Codec::LenEager => reference(LenEager::default(), &stream, |v: Vec<u8>| v),
    };
    // number of items that are complete once the first p bytes of the stream have been read
    let decodable = |p: usize| end_off.iter().filter(|e| **e <= p).count();
    let mut fed_at_err = 0usize;
    let preload = cfg.preload.min(stream.len());
    let mut f = make_with(&cfg.codec, &stream[..preload]);
    if preload > 0 {
        ctx.bump("probe.read_buffer_preloaded");
    }
    let mut fed = preload;
    let mut eof_fed = false;
    let mut err_fed = false;
    let mut task = TaskWake::new();
    let mut parked = false;
    let mut got: Vec<Item> = Vec::new(); // items with the injected I/O error removed
    let mut io_errs = 0u32;
    let mut ended_polls = 0u32;
    let mut bytes_got: Vec<u8> = Vec::new();
    let mut draining = false;

    let check = |got: &Vec<Item>, bytes_got: &Vec<u8>, item: &Item, stream: &[u8], fed: usize| -> Option<Violation> {
        match cfg.codec {
            Codec::Bytes => {
                // BytesCodec frames are whatever has arrived: only the concatenation is defined
                if let Item::Frame(_) = item {
                    if !stream[..fed].starts_with(bytes_got) {
                        return Some(Violation::new("frames-differ", format!("BytesCodec output is not a prefix of the stream at offset {}", bytes_got.len())));
                    }
                }
                if *item == Item::End && bytes_got.len() != stream.len() {
                    return Some(Violation::new("frames-differ", format!("stream ended after {} of {} bytes", bytes_got.len(), stream.len())));
                }
                None
            }
            _ => {
                let i = got.len() - 1;
                match expect.get(i) {
                    Some(e) if e == item => None,
                    Some(e) => Some(
                        Violation::new(
                            "frames-differ",
                            format!("item {i}: Framed yielded {} but the codec on the undivided stream yields {}", show(item), show(e)),
                        )
                        .fact("codec", format!("{:?}", cfg.codec)),
                    ),
                    None => {
                        // past the reference list: only End (again) is acceptable after End
                        if *item == Item::End && expect.last() == Some(&Item::End) {
                            None
                        } else {
                            Some(Violation::new("frames-differ", format!("extra item {i}: {}", show(item))))
                        }
                    }
                }
            }
        }
    };

    loop {
        let mut en: Vec<(Action, u32)> = Vec::new();
        if !draining {
            let rest = stream.len() - fed;
            if rest > 0 && !eof_fed {
                for n in [1usize, 2, 3, 7, 64, 1000, 1024, 1025, 8191, 8192, 8193] {
                    if n < rest {
                        en.push((Action::Feed(n), cfg.w_feed));
                    }
                }
                en.push((Action::Feed(rest), cfg.w_feed));
            }
            if rest == 0 && !eof_fed {
                en.push((Action::FeedEof, cfg.w_feed * 2));
            }
            if cfg.faults && !err_fed && !eof_fed {
                en.push((Action::FeedErr, 1));
            }
        }
        if cfg.rebuild && !draining {
            for how in 1..4u8 {
                en.push((Action::Rebuild(how), 1));
            }
        }
        if cfg.sink_ops && !draining {
            en.push((Action::PollFlush, 1));
            en.push((Action::PollClose, 1));
        }
        let ended = got.last() == Some(&Item::End);
        if !ended || ended_polls < 2 {
            if !parked || task.woken() {
                en.push((Action::PollNext, cfg.w_poll));
            } else if cfg.spurious > 0 && !draining {
                en.push((Action::SpuriousPollNext, cfg.spurious));
            }
        }
        let a = if draining {
            if en.is_empty() {
                break;
            }
            Action::PollNext
        } else {
            match ch.choose(&en) {
                Some(a) => a,
                None => {
                    // drain: deliver the rest and EOF, then poll to the end
                    draining = true;
                    if fed < stream.len() {
                        f.io().rq.push_back(ReadEv::Chunk(stream[fed..].to_vec()));
                        fed = stream.len();
                    }
                    if !eof_fed {
                        f.io().rq.push_back(ReadEv::Eof);
                        eof_fed = true;
                    }
                    if let Some(w) = f.io().read_waker.take() {
                        w.wake();
                    }
                    continue;
                }
            }
        };
        match a {
            Action::Feed(n) => {
                let n = n.min(stream.len() - fed);
                f.io().rq.push_back(ReadEv::Chunk(stream[fed..fed + n].to_vec()));
                fed += n;
                if let Some(w) = f.io().read_waker.take() {
                    w.wake();
                }
                ev!(ctx, "feed {n}");
            }
            Action::FeedEof => {
                f.io().rq.push_back(ReadEv::Eof);
                eof_fed = true;
                if let Some(w) = f.io().read_waker.take() {
                    w.wake();
                }
                ev!(ctx, "feed eof");
            }
            Action::Rebuild(how) => {
                f.rebuild(how);
                ctx.bump("probe.rebuilt_mid_stream");
                ev!(ctx, "rebuild {how}");
            }
            Action::PollFlush | Action::PollClose => {
                // the write half has nothing to do; whatever it does must leave the read half alone
                let w = std::task::Waker::noop();
                let mut cx = Context::from_waker(&w);
                let r = if a == Action::PollFlush { f.poll_flush(&mut cx) } else { f.poll_close(&mut cx) };
                ctx.bump("probe.sink_polled_between_reads");
                ev!(ctx, "sink {} -> ready={}", if a == Action::PollFlush { "flush" } else { "close" }, r.is_ready());
            }
            Action::FeedErr => {
                f.io().rq.push_back(ReadEv::Err(cfg.read_err_kind));
                err_fed = true;
                fed_at_err = fed;
                ctx.bump("fault.read_error");
                if let Some(w) = f.io().read_waker.take() {
                    w.wake();
                }
                ev!(ctx, "feed err");
            }
            Action::PollNext | Action::SpuriousPollNext => {
                if matches!(a, Action::SpuriousPollNext) {
                    ctx.bump("spurious_polls");
                }
                let (_fl, w) = task.fresh();
                let mut cx = Context::from_waker(&w);
                let pend_before = f.io().read_pendings;
                let r = f.poll_item(&mut cx);
                match r {
                    Poll::Pending => {
                        parked = true;
                        ev!(ctx, "poll -> pending");
                        ctx.bump("probe.pending_returned");
                        // no lost wake-up: the transport must hold the waker of this poll
                        if f.io().read_pendings == pend_before {
                            return Some(Violation::new("pending-without-cause", "poll_next returned Pending although the transport did not"));
                        }
                        // the transport is drained: whatever is complete in the bytes read so far
                        // has been yielded (a frame kept back here is lost to a peer that waits)
                        let withheld = if cfg.codec == Codec::Bytes { bytes_got.len() < fed } else { got.len() < decodable(fed) };
                        // (bytes handed over in the read buffer are first looked at after the next
                        // successful read: outside the statement, which speaks about reads)
                        if withheld && preload == 0 {
                            return Some(Violation::new(
                                "frame-withheld",
                                format!("poll_next returned Pending after {fed} bytes were read although only {} of the {} items complete in them have been yielded", got.len(), decodable(fed)),
                            ));
                        }
                        if draining {
                            return Some(Violation::new("stuck-stream", "all bytes and EOF were delivered but poll_next stays Pending"));
                        }
                    }
                    Poll::Ready(item) => {
                        parked = false;
                        ev!(ctx, "poll -> {}", show(&item));
                        if item == Item::IoErr {
                            io_errs += 1;
                            if !err_fed || io_errs > 1 {
                                return Some(Violation::new("io-error-wrong", "an I/O error item appeared that was not injected (or appeared twice)"));
                            }
                            ctx.bump("probe.io_error_surfaced");
                            // order: frames whose bytes were read before the error come first
                            let late = if cfg.codec == Codec::Bytes { bytes_got.len() < fed_at_err } else { got.len() < decodable(fed_at_err) };
                            if late && preload == 0 {
                                return Some(Violation::new(
                                    "io-error-overtook-frames",
                                    format!("the I/O error injected after {fed_at_err} bytes was yielded when only {} of the {} items complete in those bytes had been yielded", got.len(), decodable(fed_at_err)),
                                ));
                            }
                            if got.contains(&Item::DecodeErr) {
                                ctx.bump("probe.io_error_after_decode_error");
                            }
                            continue;
                        }
                        if ended {
                            ended_polls += 1;
                        }
                        if let Item::Frame(b) = &item {
                            bytes_got.extend_from_slice(b);
                            if b.len() > HW {
                                ctx.bump("probe.frame_larger_than_hw");
                            }
                        }
                        got.push(item.clone());
                        if let Some(v) = check(&got, &bytes_got, &item, &stream, fed) {
                            return Some(v);
                        }
                        if item == Item::DecodeErr && expect.get(got.len()).map_or(false, |n| *n != Item::End) {
                            ctx.bump("probe.items_behind_decode_error");
                        }
                        if item == Item::End {
                            ctx.bump("probe.end_reached");
                            if got.len() >= 2 && got[got.len() - 2] == Item::Frame(b"#trailer".to_vec()) {
                                ctx.bump("probe.eof_frame_from_empty_buffer");
                            }
                            if !eof_fed {
                                return Some(Violation::new("ended-early", "stream yielded None before EOF was delivered"));
                            }
                        }
                    }
                }
            }
            _ => unreachable!(),
        }
        ctx.state(hash_u64s(&[fed as u64 % 97, got.len() as u64, parked as u64, eof_fed as u64, f.io().rq.len() as u64]));
    }
    // completeness: everything the reference yields was yielded
    if cfg.codec != Codec::Bytes {
        let want = expect.len();
        if got.len() < want {
            return Some(Violation::new(
                "frames-missing",
                format!("Framed yielded {} items, the codec on the undivided stream yields {want}; next expected: {}", got.len(), show(&expect[got.len()])),
            ));
        }
    } else if bytes_got.len() != stream.len() || got.last() != Some(&Item::End) {
        return Some(Violation::new("frames-missing", format!("BytesCodec delivered {} of {} bytes", bytes_got.len(), stream.len())));
    }
    if err_fed && io_errs == 0 && f.io().rq.iter().all(|e| !matches!(e, ReadEv::Err(_))) {
        return Some(Violation::new("io-error-swallowed", "the injected read error never surfaced as a stream item"));
    }
    ctx.nontrivial = got.len() >= 2 && f.io().read_pendings >= 1;
    None
}

fn show(i: &Item) -> String {
    match i {
        Item::Frame(b) if b.len() <= 24 => format!("Frame({:?})", String::from_utf8_lossy(b)),
        Item::Frame(b) => format!("Frame(len {})", b.len()),
        o => format!("{o:?}"),
    }
}

// ------------------------------------------------------------------------------------------------
// C14

fn item_bytes(cfg: &Config, size: usize, seq: usize) -> Vec<u8> {
    let mut v = Vec::with_capacity(size);
    for i in 0..size {
        let b = ((seq * 131 + i * 7 + 3) % 251) as u8;
        v.push(match cfg.codec {
            Codec::Lines => b'a' + (b % 26),
            _ => b,
        });
    }
    v
}

#[derive(Clone, Copy, PartialEq, Debug)]
enum Op {
    Ready,
    Flush,
    Close,
}

fn run_c14(cfg: &Config, ch: &mut Chooser<Action>, ctx: &mut RunCtx) -> Option<Violation> {
    let mut f = make(&cfg.codec);
    let mut expected: Vec<u8> = Vec::new();
    let mut sent = 0usize;
    let mut tasks = [TaskWake::new(), TaskWake::new(), TaskWake::new()];
    let mut parked = [false; 3];
    let mut closed = false;
    let mut errored = false;
    let mut flush_ok = 0;
    let mut partials = 0;
    let sizes = [0usize, 1, 17, LW - 1, LW, LW + 1, 3000, REFUSED_SIZE, HW - 1, HW, HW + 1, 3 * HW];

    loop {
        let mut en: Vec<(Action, u32)> = Vec::new();
        if !closed && !errored && sent < 12 {
            for s in sizes {
                let w = if s >= HW { 1 } else { 2 };
                en.push((Action::StartSend(s), w));
            }
        }
        if !errored {
            for (i, (op, act)) in [(Op::Ready, Action::PollReady), (Op::Flush, Action::PollFlush), (Op::Close, Action::PollClose)].into_iter().enumerate() {
                if closed && op != Op::Close {
                    continue;
                }
                if !parked[i] || tasks[i].woken() {
                    en.push((act, cfg.w_poll));
                } else if cfg.spurious > 0 {
                    en.push((Action::Spurious(i as u8), cfg.spurious));
                }
            }
            // transport script
            if f.io().wplans.len() < 3 {
                for k in [1usize, 2, 100, 1024, 5000] {
                    en.push((Action::WPlan(k), 1));
                }
                en.push((Action::WPending, 2));
                if cfg.faults {
                    en.push((Action::WZero, 1));
                    en.push((Action::WErr, 1));
                    en.push((Action::WIntr, 1));
                }
                if f.io().wplans.is_empty() {
                    en.push((Action::WTrickle(*[20usize, 40].get(sent % 2).unwrap(), *[1usize, 64, 300].get(sent % 3).unwrap()), 1));
                }
            }
            if f.io().fplans.len() < 2 {
                en.push((Action::FlushPlan(1), 1));
                if cfg.faults {
                    en.push((Action::FlushPlan(2), 1));
                }
            }
            if f.io().splans.len() < 2 {
                en.push((Action::ShutdownPlan(1), 1));
                if cfg.faults {
                    en.push((Action::ShutdownPlan(2), 1));
                }
            }
            if f.io().write_waker.is_some() {
                en.push((Action::FireWaker, cfg.w_feed * 2));
            }
            if cfg.rebuild && !closed {
                for how in 0..4u8 {
                    en.push((Action::Rebuild(how), 1));
                }
            }
        }
        let Some(a) = ch.choose(&en) else { break };
        match a {
            Action::StartSend(size) => {
                let item = item_bytes(cfg, size, sent);
                let mut enc = BytesMut::new();
                f.encode_ref(&item, &mut enc);
                let refuse = size == REFUSED_SIZE && matches!(cfg.codec, Codec::LenPrefix | Codec::LenTrailer | Codec::LenEager);
                let r = f.start_send(item);
                ev!(ctx, "start_send {size} -> {}", r.is_ok());
                if r.is_ok() == refuse {
                    return Some(Violation::new("start-send-result", format!("start_send of a {size}-byte item returned ok={} but the encoder {}", r.is_ok(), if refuse { "refuses it" } else { "accepts it" })));
                }
                if r.is_ok() {
                    expected.extend_from_slice(&enc);
                    sent += 1;
                } else {
                    // a refused item is not part of the stream; what was accepted before it stays
                    ctx.bump("probe.item_refused_by_encoder");
                    if expected.len() > f.io().written.len() {
                        ctx.bump("probe.item_refused_with_bytes_buffered");
                    }
                }
            }
            Action::PollReady | Action::PollFlush | Action::PollClose | Action::Spurious(_) => {
                let (i, op) = match a {
                    Action::PollReady | Action::Spurious(0) => (0, Op::Ready),
                    Action::PollFlush | Action::Spurious(1) => (1, Op::Flush),
                    _ => (2, Op::Close),
                };
                let (_fl, w) = tasks[i].fresh();
                let mut cx = Context::from_waker(&w);
                f.io().call_log.clear();
                let before = f.io().written.len();
                let r = match op {
                    Op::Ready => f.poll_ready(&mut cx),
                    Op::Flush => f.poll_flush(&mut cx),
                    Op::Close => f.poll_close(&mut cx),
                };
                let log = f.io().call_log.clone();
                let wrote = f.io().written.len() - before;
                if log.iter().filter(|l| **l == "w-ok").count() > 16 {
                    ctx.bump("probe.more_than_16_writes_in_one_call");
                }
                if wrote > 0 && f.io().written.len() < expected.len() {
                    partials += 1;
                    ctx.bump("probe.partial_progress");
                }
                let buffered = expected.len().saturating_sub(f.io().written.len());
                ev!(ctx, "{op:?} -> {} (transport: {}) wrote {wrote} buffered {buffered}", match &r { Poll::Pending => "pending".to_string(), Poll::Ready(Ok(())) => "ok".to_string(), Poll::Ready(Err(e)) => format!("err {:?}", e.kind()) }, log.join(","));
                // byte ledger: what reached the transport is a prefix of the accepted encodings
                if !expected.starts_with(&f.io().written) {
                    let pos = expected.iter().zip(f.io().written.iter()).position(|(a, b)| a != b).unwrap_or(expected.len().min(f.io().written.len()));
                    return Some(Violation::new(
                        "bytes-corrupted",
                        format!("transport bytes diverge from the concatenated encodings at offset {pos} (transport has {}, accepted {})", f.io().written.len(), expected.len()),
                    ));
                }
                if f.io().writes_after_shutdown {
                    return Some(Violation::new("write-after-shutdown", "bytes were written to the transport after its shutdown had completed"));
                }
                match &r {
                    Poll::Pending => {
                        parked[i] = true;
                        ctx.bump("probe.sink_pending");
                        let cause = log.iter().any(|l| l.ends_with("pending"));
                        if !cause {
                            return Some(Violation::new("pending-without-cause", format!("{op:?} returned Pending but no transport call of this poll did")));
                        }
                    }
                    Poll::Ready(Ok(())) => {
                        parked[i] = false;
                        if log.contains(&"w-zero") {
                            return Some(Violation::new("write-zero-missed", format!("{op:?} reported success although the transport accepted zero bytes")));
                        }
                        if log.iter().any(|l| l.ends_with("-err")) {
                            return Some(Violation::new("io-error-swallowed", format!("{op:?} reported success although the transport returned an error")));
                        }
                        match op {
                            Op::Ready => {
                                if buffered >= HW {
                                    return Some(
                                        Violation::new(
                                            "no-backpressure",
                                            format!("poll_ready returned Ready(Ok) with {buffered} bytes still buffered (high-water mark {HW})"),
                                        ),
                                    );
                                }
                                if wrote > 0 {
                                    ctx.bump("probe.ready_after_flush");
                                }
                            }
                            Op::Flush => {
                                flush_ok += 1;
                                if buffered != 0 || !f.io().flushed_after_last_write {
                                    return Some(Violation::new(
                                        "flush-left-bytes",
                                        format!("poll_flush returned Ready(Ok) with {buffered} bytes still buffered (transport flushed after last write: {})", f.io().flushed_after_last_write),
                                    ));
                                }
                            }
                            Op::Close => {
                                closed = true;
                                ctx.bump("probe.close_ok");
                                if buffered != 0 || !f.io().shutdown_ok {
                                    return Some(
                                        Violation::new(
                                            "close-left-bytes",
                                            format!("poll_close returned Ready(Ok) with {buffered} accepted bytes never written (transport shut down: {})", f.io().shutdown_ok),
                                        )
                                        .fact("buffered", if buffered > 0 { "yes" } else { "no" }),
                                    );
                                }
                            }
                        }
                    }
                    Poll::Ready(Err(e)) if e.kind() == io::ErrorKind::Interrupted && log.contains(&"w-intr") => {
                        // EINTR handed to the caller: nothing is lost, the caller polls again
                        parked[i] = false;
                        ctx.bump("probe.interrupted_reported");
                    }
                    Poll::Ready(Err(e)) => {
                        errored = true;
                        ctx.bump("probe.sink_error");
                        if log.contains(&"w-zero") {
                            ctx.bump("probe.write_zero_reported");
                            if e.kind() != io::ErrorKind::WriteZero {
                                return Some(Violation::new("write-zero-missed", format!("zero-length write reported as {:?}, not WriteZero", e.kind())));
                            }
                        } else if !log.iter().any(|l| l.ends_with("-err")) {
                            return Some(Violation::new("spurious-error", format!("{op:?} failed with {:?} although no transport call failed", e.kind())));
                        }
                    }
                }
            }
            Action::WPlan(k) => f.io().wplans.push_back(WPlan::Accept(k)),
            Action::WPending => f.io().wplans.push_back(WPlan::Pending),
            Action::WZero => {
                ctx.bump("fault.write_zero");
                f.io().wplans.push_back(WPlan::Zero)
            }
            Action::WErr => {
                ctx.bump("fault.write_error");
                f.io().wplans.push_back(WPlan::Err)
            }
            Action::WIntr => {
                ctx.bump("fault.write_interrupted");
                f.io().wplans.push_back(WPlan::Intr)
            }
            Action::WTrickle(n, k) => {
                for _ in 0..n {
                    f.io().wplans.push_back(WPlan::Accept(k));
                }
            }
            Action::FlushPlan(c) => {
                if c == 2 {
                    ctx.bump("fault.flush_error");
                }
                f.io().fplans.push_back(if c == 1 { OpPlan::Pending } else { OpPlan::Err })
            }
            Action::ShutdownPlan(c) => {
                if c == 2 {
                    ctx.bump("fault.shutdown_error");
                }
                f.io().splans.push_back(if c == 1 { OpPlan::Pending } else { OpPlan::Err })
            }
            Action::Rebuild(how) => {
                f.rebuild(how);
                if expected.len() > f.io().written.len() {
                    ctx.bump("probe.rebuilt_with_bytes_buffered");
                }
                ev!(ctx, "rebuild {how}");
            }
            Action::FireWaker => {
                if let Some(w) = f.io().write_waker.take() {
                    w.wake();
                }
                ev!(ctx, "fire waker");
            }
            _ => unreachable!(),
        }
        let buffered = expected.len().saturating_sub(f.io().written.len());
        ctx.state(hash_u64s(&[
            (buffered.min(3 * HW) / 512) as u64,
            parked[0] as u64 + 2 * parked[1] as u64 + 4 * parked[2] as u64,
            closed as u64,
            errored as u64,
            f.io().wplans.len() as u64,
        ]));
        if errored {
            break;
        }
    }
    ctx.nontrivial = sent >= 1 && (flush_ok >= 1 || closed) && partials + flush_ok >= 1;
    None
}

// ------------------------------------------------------------------------------------------------

pub struct IoSim;

impl Engine for IoSim {
    type Config = Config;
    type Action = Action;
    const NAME: &'static str = "iosim";

    fn properties() -> &'static [&'static str] {
        &["C13", "C14"]
    }
    fn level(_: &str) -> &'static str {
        "fault_enumeration"
    }
    fn budget(prop: &str, tier: Tier) -> (u64, u64) {
        match (prop, tier) {
            (_, Tier::Quick) => (3_000_000, 45),
            (_, Tier::Thorough) => (100_000_000, 600),
        }
    }
    fn gen_config(prop: &str, tier: Tier, rng: &mut Rng) -> Config {
        let long = rng.chance(1, if tier == Tier::Thorough { 6 } else { 12 });
        let codec = match rng.below(6) {
            0 => Codec::Bytes,
            1 => Codec::LenPrefix,
            2 => Codec::LenTrailer,
            3 => Codec::LenEager,
            _ => Codec::Lines,
        };
        Config {
            codec,
            stream_seed: rng.next_u64(),
            stream_len: if long { rng.range(1024, 40 * 1024) as usize } else { rng.range(0, 64) as usize },
            long,
            // fault-free and fault-injecting configurations are separate batches
            faults: rng.chance(1, 2),
            max_actions: if prop == "C13" { rng.range(4, 60) as usize } else { rng.range(4, 50) as usize },
            spurious: *rng.pick(&[0, 0, 1, 2]),
            w_feed: *rng.pick(&[1, 2, 4]),
            w_poll: *rng.pick(&[2, 4, 8]),
            rebuild: rng.chance(1, 4),
            read_err_kind: rng.below(3) as u8,
            preload: if rng.chance(1, 6) { rng.range(1, 5) as usize } else { 0 },
            sink_ops: rng.chance(1, 5),
        }
    }
    fn max_actions(_: &str, cfg: &Config) -> usize {
        cfg.max_actions
    }
    fn run(prop: &str, cfg: &Config, ch: &mut Chooser<Action>, ctx: &mut RunCtx) -> Option<Violation> {
        if prop == "C13" {
            run_c13(cfg, ch, ctx)
        } else {
            run_c14(cfg, ch, ctx)
        }
    }
    fn shrink_config(prop: &str, cfg: &Config) -> Vec<Config> {
        let mut v = Vec::new();
        if prop == "C13" && cfg.stream_len > 0 {
            for n in [cfg.stream_len / 2, cfg.stream_len - 1] {
                let mut c = cfg.clone();
                c.stream_len = n;
                v.push(c);
            }
        }
        if cfg.faults {
            let mut c = cfg.clone();
            c.faults = false;
            v.push(c);
        }
        v
    }
    fn describe(prop: &str) -> Describe {
        Describe {
            rule: if prop == "C13" {
                "byte streams (0..64 bytes over an alphabet with the codec's delimiters / length prefixes incl. a poison length; long streams of 1-40 KiB with frames around the 1 KiB and 8 KiB marks and larger than 8 KiB) cut into read chunks by seeded Feed(n) actions, Pending wherever the stream is polled with nothing available, optional single read error (ConnectionReset / Interrupted / TimedOut: each must surface as an item), EOF, in a quarter of the runs the Framed is taken apart and rebuilt mid-stream (into_map_codec / into_map_io / into_parts+from_parts); items (frames and decode errors, decoding goes on behind an error) compared one by one with the same codec applied to the undivided stream (BytesCodec: concatenation), a stateful partner codec yields an end-of-stream frame from the empty buffer, another consumes its length header eagerly (returning Ok(None) while consuming); the Sink face may be flushed/closed between reads; whenever the stream returns Pending or the injected I/O error, every item complete in the bytes read before has been yielded; non-trivial = >=2 items and >=1 Pending read; distinct = distinct event-trace hash".into()
            } else {
                "item sequences (<=12 items, sizes 0,1,17,LW-1,LW,LW+1,3000,4242 (refused by the length-prefixed encoders: a fallible encoder),HW-1,HW,HW+1,3HW) and transport scripts (accept k bytes / runs of 20-40 small accepts / Pending / zero / error / EINTR; flush and shutdown Ok / Pending / error) and, in a quarter of the runs, rebuilds of the Framed (replace_codec / into_map_codec / into_map_io / into_parts+from_parts, which carry both buffers along) interleaved with poll_ready / start_send / poll_flush / poll_close under strict-wake; byte ledger and result invariants after every call; non-trivial = >=1 item accepted and a flush or close succeeded; distinct = distinct event-trace hash".into()
            },
            real: vec!["actix_codec::Framed (Stream and Sink faces)", "actix_codec::LinesCodec", "actix_codec::BytesCodec"],
            stub: vec!["transport (SimIo: scripted AsyncRead/AsyncWrite)", "length-prefixed codec (harness partner with decode error and decode_eof tail)", "executor (strict-wake manual polling)"],
            assumptions: vec!["fault-free and fault-injecting configurations are drawn separately", "sampling, not exhaustive enumeration"],
        }
    }
    fn required_probes(prop: &str, _tier: Tier) -> Vec<&'static str> {
        if prop == "C13" {
            vec!["probe.pending_returned", "probe.end_reached", "probe.io_error_surfaced", "probe.frame_larger_than_hw", "probe.items_behind_decode_error", "probe.io_error_after_decode_error", "probe.eof_frame_from_empty_buffer", "probe.rebuilt_mid_stream", "probe.read_buffer_preloaded", "probe.sink_polled_between_reads"]
        } else {
            vec!["probe.partial_progress", "probe.sink_pending", "probe.close_ok", "probe.write_zero_reported", "probe.ready_after_flush", "probe.interrupted_reported", "probe.more_than_16_writes_in_one_call", "probe.rebuilt_with_bytes_buffered", "probe.item_refused_with_bytes_buffered"]
        }
    }
}

fn main() {
    simcore::main_for::<IoSim>()
}
