#!/usr/bin/env python3
"""Regenerates /verif/MANIFEST.json from the table below (kept in one place so it stays valid)."""
import json, os, subprocess
ROOT = os.path.dirname(os.path.dirname(os.path.abspath(__file__)))

# id -> (engine, level, technique, level text, level note, design ref)
CHECKS = {
 "C16": ("chansim", "exploration",
         "deterministic simulation: seeded operation interleavings under a strict-wake executor vs FIFO reference model",
         "Seeded search over operation histories (send / Sink send / clone / drop / close / poll / sender-from-receiver / drop receiver) of the real local-channel, every operation compared with a FIFO queue model and every wake-up obligation checked against counting wakers; sampling (millions of short histories per run), not proof.",
         "Trusts the harness model (about 40 lines) and the strict-wake executor; single-threaded use only (types are !Send).", "§6.3"),
 "C17": ("chansim", "exploration",
         "deterministic simulation: seeded guard/query histories under a strict-wake executor vs counter model",
         "Seeded search over acquire / drop / available(task) / clone histories of the real actix-utils Counter for capacities 0..3 and register / wake / take histories of the real LocalWaker, each compared with a reference model including exact wake counts; sampling, not proof.",
         "Trusts the counter/slot model in the harness; single-threaded use only.", "§6.3"),
}
ENGINES = [
 {"name": "chansim", "path": "sim/pollsim/src/chansim.rs", "serves_properties": ["C16", "C17"],
  "kind_free_text": "strict-wake poll-level simulator for local-channel / Counter / LocalWaker"},
]
NOT_APPLICABLE = {
 "C15": "LinesCodec framing is a pure function of its input bytes: no schedule, clock, fault or interleaving for a simulator to own (DESIGN.md §8); it belongs to exhaustive enumeration / property-based testing, which is not this technique.",
 "C20": "ByteString constructors/split/compare are pure functions of their inputs: no concurrency, time or I/O (DESIGN.md §8).",
}
PLANNED = {
 "C01": "srvsim", "C02": "srvsim", "C03": "srvsim", "C04": "srvsim", "C05": "srvsim", "C06": "srvsim",
 "C07": "srvsim", "C08": "srvsim", "C09": "rtsim", "C10": "rtsim", "C11": "svcsim", "C12": "svcsim",
 "C13": "iosim", "C14": "iosim", "C18": "tlssim", "C19": "tlssim",
}

def hook_commits():
    try:
        out = subprocess.run(["git", "-C", "/repo", "log", "--format=%h %s"], capture_output=True, text=True).stdout
    except Exception:
        return []
    return [l.split()[0] for l in out.splitlines() if l.split(" ", 1)[1].startswith("verif-hook:")][::-1]

def main():
    checks = []
    for pid in sorted(CHECKS):
        eng, level, tech, text, note, ref = CHECKS[pid]
        checks.append({
            "property_id": pid,
            "quick_cmd": f"./check {pid} --tier quick",
            "thorough_cmd": f"./check {pid} --tier thorough",
            "evidence_file": f"/verif/evidence/{pid}.json",
            "replay_cmd_template": f"./check {pid} --replay {{path}}",
            "engine": eng,
            "level_claimed": {"category": level, "text": text, "design_ref": f"DESIGN.md {ref}"},
            "level_note": note,
            "technique": tech,
        })
    na = [{"property_id": k, "reason": v} for k, v in sorted(NOT_APPLICABLE.items())]
    for pid, eng in sorted(PLANNED.items()):
        if pid not in CHECKS:
            na.append({"property_id": pid, "reason": f"not claimed yet: engine {eng} (DESIGN.md) is not built at this commit; no check is registered rather than an unsound one"})
    m = {
        "version": 1,
        "setup_cmd": "cd sim && CARGO_NET_OFFLINE=true cargo build --release --offline",
        "hooks": {
            "guard": "--cfg actix_net_verif",
            "enable": "RUSTFLAGS='--cfg actix_net_verif' via /verif/sim/.cargo/config.toml; the engines depend on /repo's crates by path, so every check rebuilds them from the current working tree with the guard on",
            "baseline_off_cmd": "cd /repo && cargo test --workspace --no-fail-fast --offline",
            "source_commits": hook_commits(),
            "add_only": True,
        },
        "engines": ENGINES,
        "checks": checks,
        "not_applicable": sorted(na, key=lambda x: x["property_id"]),
        "notes": "Deterministic simulation with fault injection; one seed (VERIF_SEED, default 1) decides every run. Exit 0 held / 1 VIOLATION / 2 harness error. known_findings.json lists genuine defects (fixed or known); corpus/<id>/ holds minimised replays that every run re-executes first.",
    }
    with open(os.path.join(ROOT, "MANIFEST.json"), "w") as f:
        json.dump(m, f, indent=1)
        f.write("\n")

if __name__ == "__main__":
    main()
