#!/usr/bin/env python3
"""Regenerates /verif/MANIFEST.json from the table below (kept in one place so it stays valid)."""
import json, os, subprocess
ROOT = os.path.dirname(os.path.dirname(os.path.abspath(__file__)))

# id -> (engine, level, technique, level text, level note, design ref)
CHECKS = {
 "C01": ("srvsim", "exploration",
         "deterministic simulation: whole server stepped on one thread under a seeded scheduler; connection ledger oracle",
         "Seeded search over interleavings of client connects, accept-loop iterations, worker polls, connection completions, pause/resume and stop on the real ServerBuilder/Server/Accept/ServerWorker code (1..3 workers, TCP+UDS listeners, limits 1..3; in part of the runs worker kills, service readiness scripts and bursts of 40/70 connections); every accepted connection is tracked from accept to service call (right listener's service, exactly once, none lost while a worker lives, queued ones closed on shutdown). Sampling, not proof.",
         "Trusts the stepping hooks (one real loop iteration per step), the harness services and kernel loopback ordering; OS threads are replaced by simulator tasks, so only the modelled send->inc window is explored below loop-iteration granularity.", "§4.4 C01"),
 "C02": ("srvsim", "exploration",
         "deterministic simulation: seeded schedules incl. worker progress inside the send->increment window; per-worker in-progress invariant",
         "Invariant `dispatched - finished <= max_concurrent_connections` per worker checked after every simulator action and at every service call entry, over seeded schedules of the real server in which workers may run between the channel send and the counter increment, with pause/resume and service readiness scripts (Pending and failing readiness, i.e. service restarts); limits 1..4, 1..3 workers. Sampling, not proof.",
         "Judged up to the first worker fault of a history (the property's own proviso). Same trusted base as C01.", "§4.4 C02"),
 "C03": ("srvsim", "exploration",
         "deterministic simulation: liveness judged at quiescent states of the stepped server (no enabled internal action)",
         "At every quiescent state reached by seeded schedules (all wake-ups processed, no timer, not paused) no client may be waiting on a listener while a worker in the rotation has spare capacity; real epoll edge-triggering, waker queue and counters; workloads include worker kills, readiness scripts, bursts of 40/70 connections and worker progress inside the window where the accept loop resets its waker queue. No step or time bound enters the oracle. Sampling, not proof.",
         "Same trusted base as C01; quiescence is defined by the simulator's enabled-action set.", "§4.4 C03"),
 "C04": ("srvsim", "exploration",
         "deterministic simulation: dispatch-history oracle over seeded schedules + model comparison of the availability bit set",
         "Dispatch log of seeded fault-free schedules: every window of W consecutive dispatches made while the accept loop's own view had all W workers available goes to W distinct workers, the rotation cursor moves only inside accept_one (one step per served or skipped handle, reference cursor), and no dispatch targets a saturated worker (judged on the fault-free prefix; the rotation rules restart at every membership change); worker counts up to 512 in the thorough tier; the real availability bit set is additionally driven with seeded set/get histories over indices 0..512 against a boolean-array model. Sampling, not proof.",
         "The rotation rule is judged against the accept loop's own availability view (reported by a hook at each accept_one iteration).", "§4.4 C04"),
 "C05": ("srvsim", "fault_enumeration",
         "deterministic simulation with fault injection: accept errors of each kind and pause/resume storms, inserted at every position of sampled histories",
         "Injected accept errors (EMFILE, ENFILE, ENOBUFS, ENOMEM, ECONNABORTED, ECONNRESET, ECONNREFUSED) replacing real accepts, pause/resume command storms, virtual-clock advances, on TCP and Unix-domain listeners; random schedules plus fault-point sweeps (each fault kind at every position of sampled fault-free histories). Oracles: nothing accepted once a pause has taken effect, per-connection errors arm no back-off, the loop's poll timeout never exceeds the earliest back-off deadline of any listener, and after faults stop every listener accepts a fresh client. Sampling of histories; enumeration of fault points within them.",
         "Fault injection happens at the top of MioListener::accept (the pending connection stays queued in the kernel); the 500 ms back-off is only bounded from above.", "§4.4 C05"),
 "C06": ("srvsim", "fault_enumeration",
         "deterministic simulation: stop commands and real signals at every position of sampled histories under a virtual clock",
         "stop(graceful/forced), repeated and late stops, dropped stop futures, shutdown_timeout 0..5 s, the accept loop and workers running between the server's two stop notifications, and real SIGTERM/SIGINT/SIGQUIT raised in-process, at random points and swept over every position of sampled histories with 0..3 connections in progress and completion before/at/after shutdown_timeout in virtual time. Oracles: graceful never completes while a worker is busy before the timeout; forced completes with zero clock advance; every stop future and the Server future resolve; nothing is dispatched afterwards.",
         "A signal and a stop command are not mixed in one run (the multiplexer's poll order would decide which is effective). The blocking join of the accept thread is replaced by driving the stepped loop.", "§4.4 C06"),
 "C07": ("srvsim", "exploration",
         "deterministic simulation: scripted service readiness (Ok/Pending/Err) flipped by simulator actions; event-log oracle",
         "Per-worker log of poll_ready results and call entries from scripted harness services under seeded schedules: each call is immediately preceded by one Ready(Ok) from every service of the worker; a failed readiness check re-creates exactly that service from its factory (factories needing 0..2 polls), failed instances are never reused, and every queued connection (also bursts of 40/70) is served once readiness returns.",
         "Readiness flips always wake the stored waker (a flip without a wake would be an illegal service).", "§4.4 C07"),
 "C08": ("srvsim", "fault_enumeration",
         "deterministic simulation with fault injection: worker death at every point of sampled histories, late teardown, replacement through the real WorkerFaulted path",
         "Workers killed (future dropped, or panic inside a service call) at random points and swept over every position of sampled histories; their outstanding connections complete arbitrarily late (stale availability notifications); the replacement is started by the real ServerInner::handle_cmd. Oracles: the accept loop never panics or spins, no connection is dropped while a handle remains, a failed send removes the handle at once, every discovered fault is answered by a replacement with the same index that rejoins the rotation and serves (also when it arrives during a pause), no live rotation member with spare capacity stays unavailable, fresh clients are served at the end.",
         "Worker death is modelled as the ServerWorker future being dropped (as when its thread unwinds); at most two kills per run.", "§4.4 C08"),
 "C09": ("rtsim", "exploration",
         "deterministic simulation: real actix-rt threads under a baton scheduler with seeded choice of who runs next",
         "Seeded programs of arbiter life-cycle operations, spawns and system stops executed on real OS threads (real System, SystemController, Arbiter, tokio runtimes, thread-locals) with exactly one registered thread running at a time; every scheduling decision (runtime ticks, arbiter creation/registration/ready/deregistration points, every iteration of the arbiter and controller loops) is drawn from the seed and recorded. Oracle: run_with_code returns the code of the first stop in global issue order, and every arbiter whose creation had returned before that stop — or that was registered when the controller took any later Exit off its channel (reference model of the command channel) — ends its loop and joins; run returns even while an arbiter is stuck in a synchronous task. A fair round-robin phase precedes any liveness verdict. Sampling, not proof.",
         "Interleaving granularity is runtime tick + hook points (no preemption inside tokio internals); the only randomised container in actix-rt (the controller's HashMap) is not owned by the simulator: if a change makes behaviour depend on its order, the violation is reported as unstable (best-effort replay).", "§5"),
 "C10": ("rtsim", "exploration",
         "deterministic simulation: same baton scheduler; per-arbiter command log vs queue model",
         "Every task sent to an arbiter (fn / future / pending / panicking / self-stopping / cross-spawning, through the owner, a cloned handle or Arbiter::current()) logs its first poll; checked: first-poll order equals send order per arbiter, at most one start, the arbiter's own thread, System::current()/Arbiter::current() identity (also on a thread that hosted another System before; Arbiter::current() inside a running task accepts commands), nothing sent after an explicit stop() starts, spawn/stop report false once the event loop has returned and after join(), join() does not return before the thread ended, block_on returns its future's value, a panicking task does not end the arbiter. Sampling, not proof.",
         "At-most-once (commands behind a Stop may legitimately never start). Joins run on a helper thread without the baton and become schedulable when the joined thread has ended.", "§5"),
 "C11": ("svcsim", "exploration",
         "deterministic simulation: random combinator trees over scripted leaves under a strict-wake executor vs a tree interpreter",
         "Random combinator expression trees (depth <= 3, service and factory forms, type-erased with the crate's own boxed wrappers, plus fixed un-erased nestings) over scripted leaf services/factories whose futures advance only by simulator actions, with the service optionally dropped while calls are in flight and one nesting that re-enters its own RefCell handle; the result value with its trace, the exact sequence of inner calls, one build per inner factory with the supplied config and the first init error are compared with a small tree interpreter (poll-level reference model for factory futures). Sampling, not proof.",
         "Trusts the interpreter (reference composition) and the scripted leaves; values are traced vectors so each mapper application is visible.", "§6.1"),
 "C12": ("svcsim", "exploration",
         "deterministic simulation: same trees, fresh waker identity per poll; waker-coverage and poll-discipline oracles",
         "On every root poll_ready: result equals the readiness conjunction / first error of the interpreter, Ready(Ok) only after polling every inner service in that call, Pending only if every still-pending leaf holds the waker of this very call; on every future poll: no inner future polled after completion, no stage invoked twice, Pending only with a pending inner future holding the current waker; no combined future may be parked un-woken once its inner futures have completed. Sampling, not proof.",
         "Leaves wake only when the simulator advances their script (a flip without a wake is never generated).", "§6.1"),
 "C13": ("iosim", "fault_enumeration",
         "deterministic simulation with fault injection: scripted read chunking, Pending placement, one read error, EOF; reference = same codec on the undivided stream",
         "Byte streams (short ones over a delimiter-rich alphabet; long ones crossing the 1 KiB / 8 KiB marks incl. frames larger than 8 KiB) are delivered to the real Framed through a simulator-owned transport in seeded chunkings with Pending wherever it is polled dry, optionally one read error (ConnectionReset / Interrupted / TimedOut), then EOF, with optional mid-stream rebuilds of the Framed; the item sequence (frames and decode errors, decoding continues behind an error) must equal what the same codec yields on the undivided stream (LinesCodec, length-prefixed test codec with and without an end-of-stream frame from the empty buffer; BytesCodec by concatenation), the injected error must surface exactly once, and whenever the stream returns Pending or that error every item complete in the bytes read before has been yielded. Fault-free and fault-injecting configurations are separate.",
         "The reference is deliberately the codec itself on the whole buffer (C13 is about arrival independence, not about what a codec decodes).", "§6.2"),
 "C14": ("iosim", "fault_enumeration",
         "deterministic simulation with fault injection: scripted write results (k bytes / Pending / zero / error), flush and shutdown results; byte-ledger oracle",
         "Item sequences with sizes straddling 1 KiB and 8 KiB are pushed through the real Framed Sink face while the transport script returns short writes (also runs of 20-40 small accepts in one call), Pending, zero-length writes, EINTR and errors, the Framed is optionally rebuilt with bytes buffered (replace_codec / into_map_codec / into_map_io / into_parts+from_parts), and flush/shutdown return Ok/Pending/Err, in any interleaving of poll_ready/start_send/poll_flush/poll_close under strict-wake; after every call the transport bytes are a prefix of the concatenated encodings, flush/close success implies nothing buffered (and shutdown done), poll_ready exerts back-pressure at the high-water mark, zero writes surface as WriteZero, errors are not swallowed, Pending has a transport cause.",
         "After an injected error only the prefix invariant is kept (run ends).", "§6.2"),
 "C16": ("chansim", "exploration",
         "deterministic simulation: seeded operation interleavings under a strict-wake executor vs FIFO reference model",
         "Seeded search over operation histories (send / Sink send / clone / drop / close / poll / sender-from-receiver / drop receiver, bursts of 33-100 sends and receives) of the real local-channel, every operation compared with a FIFO queue model and every wake-up obligation checked against counting wakers; sampling (millions of short histories per run), not proof.",
         "Trusts the harness model (about 40 lines) and the strict-wake executor; single-threaded use only (types are !Send).", "§6.3"),
 "C17": ("chansim", "exploration",
         "deterministic simulation: seeded guard/query histories under a strict-wake executor vs counter model",
         "Seeded search over acquire / drop / available(task) / clone histories of the real actix-utils Counter for capacities 0..3 and register / wake / take histories of the real LocalWaker, each compared with a reference model including exact wake counts; sampling, not proof.",
         "Trusts the counter/slot model in the harness; single-threaded use only.", "§6.3"),
 "C18": ("tlssim", "fault_enumeration",
         "deterministic simulation with fault injection: in-memory duplex, hand-driven rustls client peer, paused clock; stall / garbage / disconnect / reset at any flight",
         "Up to 5 concurrent accept calls on the real rustls-0.23 and OpenSSL AcceptorService (from the configured acceptor or its clone, 1..2 services — optionally one of each backend — sharing the per-thread limit 1..3) over a simulator-owned duplex; the client is a hand-driven rustls ClientConnection (TLS 1.2/1.3) whose flights are delivered whole, split, byte-wise or never, or replaced by garbage, EOF or reset; the virtual clock is advanced in steps around the 0.1..5 s timeout. Oracles: outcome is a stream, a TLS error (only after a client fault) or Timeout (never before the deadline); no call stays pending and un-woken past its deadline; poll_ready is Pending iff handshakes in progress == limit and the refused task is woken when one ends or is cancelled; payloads up to 64 KiB (bulk mode: 70-130 KB against a stalled client) arrive unchanged both ways, also under transport back-pressure, through plain and vectored writes, and everything written before a completed server-side shutdown reaches the client.",
         "rustls 0.20-0.22 and native-tls acceptors are not exercised; handshake bytes contain fresh randomness, so replay is exact at the level of actions and outcomes.", "§7.1"),
 "C19": ("tlssim", "fault_enumeration",
         "deterministic simulation: scripted resolvers, live/closed loopback ports in every combination, TLS peers with right/wrong/untrusted certificates over the in-memory duplex",
         "Resolution precedence and ordered fallback of the real Connector / Resolver / TcpConnector services over kernel loopback: address lists of length 0..4 (each entry live or a reserved closed port, IPv4/IPv6), host strings with/without port, IP literals, non-numeric port text, pre-set One/Multi addresses, set_port (equal to or different from the host's port), seeded numeric order of the ports, services obtained directly or through their factories, local bind address, default resolver (localhost) or scripted resolver (list / empty / error after 0..2 Pending polls); outcome, dialled address, accept counters of every listener, the resolver call log and the error of the last address when all fail are compared with a precedence model. TLS connector services (rustls 0.23, OpenSSL) against a hand-driven rustls server whose certificate covers / does not cover the host, comes from an untrusted CA or lists only an IP: success iff the certificate is valid for hostname(); payload round trip afterwards.",
         "Connect timing (slow SYN, half-open) cannot be simulated on kernel loopback; other connector versions are not exercised.", "§7.2"),
}
ENGINES = [
 {"name": "srvsim", "path": "sim/srvsim", "serves_properties": ["C01", "C02", "C03", "C04", "C05", "C06", "C07", "C08"],
  "kind_free_text": "whole actix-server (real builder, Server future, accept loop, workers, sockets, epoll) stepped on one thread under a seeded scheduler with a paused tokio clock"},
 {"name": "rtsim", "path": "sim/rtsim", "serves_properties": ["C09", "C10"],
  "kind_free_text": "real actix-rt on real OS threads under a baton scheduler (one thread runs at a time; seeded choice at every yield point)"},
 {"name": "tlssim", "path": "sim/tlssim", "serves_properties": ["C18", "C19"],
  "kind_free_text": "actix-tls acceptor and connector services over an in-memory duplex with hand-driven rustls peers, paused clock; kernel loopback for the TCP connector"},
 {"name": "svcsim", "path": "sim/pollsim/src/svcsim.rs", "serves_properties": ["C11", "C12"],
  "kind_free_text": "strict-wake poll-level simulator for actix-service combinator trees with a tree interpreter as reference"},
 {"name": "iosim", "path": "sim/pollsim/src/iosim.rs", "serves_properties": ["C13", "C14"],
  "kind_free_text": "scripted AsyncRead/AsyncWrite transport under Framed (chunking, Pending, short/zero writes, errors)"},
 {"name": "chansim", "path": "sim/pollsim/src/chansim.rs", "serves_properties": ["C16", "C17"],
  "kind_free_text": "strict-wake poll-level simulator for local-channel / Counter / LocalWaker"},
]
NOT_APPLICABLE = {
 "C15": "LinesCodec framing is a pure function of its input bytes: no schedule, clock, fault or interleaving for a simulator to own (DESIGN.md §8); it belongs to exhaustive enumeration / property-based testing, which is not this technique.",
 "C20": "ByteString constructors/split/compare are pure functions of their inputs: no concurrency, time or I/O (DESIGN.md §8).",
}
PLANNED = {
 "C01": "srvsim", "C02": "srvsim", "C03": "srvsim", "C04": "srvsim", "C05": "srvsim", "C06": "srvsim",
 "C07": "srvsim", "C08": "srvsim", "C09": "rtsim", "C10": "rtsim", "C11": "svcsim", "C12": "svcsim",
 "C13": "iosim", "C14": "iosim", "C18": "tlssim", "C19": "tlssim",
}

def hook_commits():
    try:
        out = subprocess.run(["git", "-C", "/repo", "log", "--format=%h %s"], capture_output=True, text=True).stdout
    except Exception:
        return []
    return [l.split()[0] for l in out.splitlines() if l.split(" ", 1)[1].startswith("verif-hook:")][::-1]

def main():
    checks = []
    for pid in sorted(CHECKS):
        eng, level, tech, text, note, ref = CHECKS[pid]
        checks.append({
            "property_id": pid,
            "quick_cmd": f"./check {pid} --tier quick",
            "thorough_cmd": f"./check {pid} --tier thorough",
            "evidence_file": f"/verif/evidence/{pid}.json",
            "replay_cmd_template": f"./check {pid} --replay {{path}}",
            "engine": eng,
            "level_claimed": {"category": level, "text": text, "design_ref": f"DESIGN.md {ref}"},
            "level_note": note,
            "technique": tech,
        })
    na = [{"property_id": k, "reason": v} for k, v in sorted(NOT_APPLICABLE.items())]
    for pid, eng in sorted(PLANNED.items()):
        if pid not in CHECKS:
            na.append({"property_id": pid, "reason": f"not claimed yet: engine {eng} (DESIGN.md) is not built at this commit; no check is registered rather than an unsound one"})
    m = {
        "version": 1,
        "setup_cmd": "cd sim && CARGO_NET_OFFLINE=true cargo build --release --offline",
        "hooks": {
            "guard": "--cfg actix_net_verif",
            "enable": "RUSTFLAGS='--cfg actix_net_verif' via /verif/sim/.cargo/config.toml; the engines depend on /repo's crates by path, so every check rebuilds them from the current working tree with the guard on",
            "baseline_off_cmd": "cd /repo && cargo test --workspace --no-fail-fast --offline",
            "source_commits": hook_commits(),
            "add_only": True,
        },
        "engines": ENGINES,
        "checks": checks,
        "not_applicable": sorted(na, key=lambda x: x["property_id"]),
        "notes": "Deterministic simulation with fault injection; one seed (VERIF_SEED, default 1) decides every run. Exit 0 held / 1 VIOLATION / 2 harness error. known_findings.json lists genuine defects (fixed or known); corpus/<id>/ holds minimised replays that every run re-executes first.",
    }
    with open(os.path.join(ROOT, "MANIFEST.json"), "w") as f:
        json.dump(m, f, indent=1)
        f.write("\n")

if __name__ == "__main__":
    main()
