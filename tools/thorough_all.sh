#!/bin/bash
# tools/thorough_all.sh [budget_s] [ids...] : run the thorough tier of every check sequentially with a reduced
# wall-clock budget and report one line each (used to look for alarms deeper than the quick tier).
cd "$(dirname "$0")/.." || exit 2
b=${1:-240}; shift
ids=${@:-C01 C02 C03 C04 C05 C06 C07 C08 C09 C10 C11 C12 C13 C14 C16 C17 C18 C19}
for id in $ids; do
  out=$(VERIF_BUDGET_S=$b timeout $((b+400)) ./check $id --tier thorough 2>&1); rc=$?
  echo "== $id rc=$rc :: $(echo "$out" | grep -E 'runs \(|VIOLATION|KNOWN|harness error|violation class' | tr '\n' ' ' | cut -c1-600)"
done
