#!/usr/bin/env python3
"""tools/seeded_table.py [tag]: markdown table of the kept seeded changes whose directory name carries
the given round tag ("r2", "r3"; none = round 1), from seeded/<id>-<tag>-<k>/{meta.json,notes.md}.
Columns: change, what it does (first line of the author's notes), verdict of the property's own
quick check and the violation classes that reported it."""
import json, os, re, sys

root = os.path.join(os.path.dirname(os.path.abspath(__file__)), "..", "seeded")
tag = sys.argv[1] if len(sys.argv) > 1 else ""
rows = []
for d in sorted(os.listdir(root)):
    m = re.fullmatch(r"(C\d\d)-(?:(r\d)-)?(\d)", d)
    if not m or (m.group(2) or "") != tag:
        continue
    meta = json.load(open(os.path.join(root, d, "meta.json")))
    notes = os.path.join(root, d, "notes.md")
    first = ""
    if os.path.exists(notes):
        for line in open(notes):
            line = line.strip().lstrip("#").strip()
            if line:
                first = line
                break
    first = re.sub(r"\s+", " ", first).replace("|", "/")
    if len(first) > 230:
        first = first[:227] + "..."
    verdict = meta.get("quick_check_verdict", "?")
    classes = ", ".join(f"`{c}`" for cb in meta.get("caught_by", []) for c in cb.get("classes", []))
    other = meta.get("also_caught_by", "")
    cell = {"CAUGHT": classes or "caught", "MISSED": "**missed**", "NEUTRALISED": "neutralised"}.get(verdict, verdict)
    if other:
        cell += f" ({other})"
    if meta.get("remark"):
        cell += f" — {meta['remark']}"
    rows.append(f"| {d} | {first} | {cell} |")
print("| change | what it does | reported as |")
print("|--------|--------------|-------------|")
print("\n".join(rows))
