#!/usr/bin/env python3
"""tools/confirm_mutant.py <id> <k> [--full]

Independently confirms a seeded change produced by a sub-agent in its scratch worktree
/tmp/mut/<id> (deliverables under out/<k>/): the patch applies to a clean HEAD, the touched crates
build, their existing tests pass with the patch, the demonstration passes without the patch and
fails with it. With --full the whole-workspace suite is run with the patch as well.
On success the change is copied to /verif/seeded/<id>-<k>/ (patch.diff, demo/, notes.md, meta.json).
The worktree is left clean (and its target/ is kept for the next confirmation; remove it with the
worktree when done).
"""
import json, os, re, shutil, subprocess, sys

def sh(cmd, cwd, timeout=3000):
    p = subprocess.run(cmd, cwd=cwd, shell=True, capture_output=True, text=True, timeout=timeout)
    return p.returncode, (p.stdout + p.stderr)

def summary(out):
    ok = sum(int(m.group(1)) for m in re.finditer(r"test result: \w+\. (\d+) passed", out))
    bad = sum(int(m.group(1)) for m in re.finditer(r"test result: \w+\. \d+ passed; (\d+) failed", out))
    return ok, bad

def main():
    pid, k = sys.argv[1], sys.argv[2]
    full = "--full" in sys.argv
    root = os.environ.get("MUT_ROOT", "/tmp/mut")
    tag = os.environ.get("MUT_TAG", "")
    wt = f"{root}/{pid}"
    out = f"{wt}/out/{k}"
    patch = f"{out}/patch.diff"
    if os.path.exists(f"{out}/patch.rebased.diff") and "--rebased" in sys.argv:
        patch = f"{out}/patch.rebased.diff"
    if not os.path.exists(patch):
        print(f"NO-PATCH {pid}/{k}"); return 3
    run_md = open(f"{out}/demo/RUN.md").read() if os.path.exists(f"{out}/demo/RUN.md") else ""
    # placement of demo files: `<crate>/tests/<file>.rs` or `<crate>/examples/...`
    places = {}
    for m in re.finditer(r"`?([\w\-]+/(?:tests|examples|src/bin)/[\w\-]+\.rs)`?", run_md):
        dst = m.group(1)
        places[os.path.basename(dst)] = dst
    demo_files = [f for f in os.listdir(f"{out}/demo") if f.endswith(".rs")]
    mdir = re.search(r"([\w\-]+/tests)/", run_md)
    for f in demo_files:
        if f not in places and mdir:
            places[f] = f"{mdir.group(1)}/{f}"
    for f in demo_files:
        if f not in places:
            print(f"PARSE-FAIL {pid}/{k}: no placement for {f} in RUN.md"); return 4
    cmds = [c.strip().strip("`") for c in re.findall(r"(cargo (?:test|run)[^\n`]*)", run_md)]
    cmds = [c for c in cmds if "--workspace" not in c and any(os.path.splitext(f)[0] in c for f in demo_files)]
    cmds = list(dict.fromkeys(cmds))
    if not cmds:
        print(f"PARSE-FAIL {pid}/{k}: no demo command in RUN.md"); return 4
    touched = sorted(set(re.findall(r"^\+\+\+ b/([\w\-]+)/", open(patch).read(), re.M)))
    log = {"property": pid, "k": k, "touched_crates": touched, "demo_cmds": cmds, "steps": []}
    def step(name, rc, o, expect_fail=False):
        okc, bad = summary(o)
        log["steps"].append({"step": name, "exit": rc, "passed": okc, "failed": bad})
        return rc, okc, bad
    sh("git checkout -q -- . && git clean -fdq -e out -e target", wt)
    # 1. demo on clean HEAD
    for f in demo_files:
        os.makedirs(os.path.dirname(f"{wt}/{places[f]}"), exist_ok=True)
        shutil.copy(f"{out}/demo/{f}", f"{wt}/{places[f]}")
    # auxiliary files of a demonstration (shared mocks, `include!`d sources) go next to its tests
    aux = [f for f in os.listdir(f"{out}/demo") if not f.endswith(".rs") and f != "RUN.md" and os.path.isfile(f"{out}/demo/{f}")]
    if aux and demo_files:
        auxdir = os.path.dirname(f"{wt}/{places[demo_files[0]]}")
        for f in aux:
            shutil.copy(f"{out}/demo/{f}", f"{auxdir}/{f}")
    clean_ok = True
    for c in cmds:
        rc, o = sh(c, wt)
        rc, okc, bad = step(f"clean: {c}", rc, o)
        clean_ok &= (rc == 0)
    # 2. apply patch
    rc, o = sh(f"git apply {patch}", wt)
    if rc != 0:
        print(f"APPLY-FAIL {pid}/{k}: {o[:200]}"); sh("git checkout -q -- . && git clean -fdq -e out -e target", wt); return 5
    mut_fail = False
    for c in cmds:
        rc, o = sh(c, wt)
        rc, okc, bad = step(f"patched: {c}", rc, o)
        mut_fail |= (rc != 0)
    # 3. existing tests with the patch (demo files removed)
    for f in demo_files:
        os.remove(f"{wt}/{places[f]}")
    if aux and demo_files:
        for f in aux:
            try:
                os.remove(f"{auxdir}/{f}")
            except OSError:
                pass
    sh("git clean -fdq -e out -e target", wt)
    suite_ok = True
    for cr in touched:
        feat = " --all-features" if cr == "actix-tls" else ""
        rc, o = sh(f"cargo test --offline -p {cr}{feat}", wt)
        rc, okc, bad = step(f"patched suite: cargo test --offline -p {cr}{feat}", rc, o)
        suite_ok &= (rc == 0)
    if full and suite_ok:
        rc, o = sh("cargo test --workspace --no-fail-fast --offline", wt)
        rc, okc, bad = step("patched suite: cargo test --workspace --no-fail-fast --offline", rc, o)
        suite_ok &= (rc == 0)
    sh("git checkout -q -- . && git clean -fdq -e out -e target", wt)
    verdict = clean_ok and mut_fail and suite_ok
    log["confirmed"] = verdict
    print(("CONFIRMED" if verdict else "REJECTED"), pid, k, json.dumps(log["steps"]))
    if verdict:
        dst = f"/verif/seeded/{pid}-{tag}{k}"
        shutil.rmtree(dst, ignore_errors=True)
        os.makedirs(dst)
        shutil.copy(patch, f"{dst}/patch.diff")
        shutil.copytree(f"{out}/demo", f"{dst}/demo")
        if os.path.exists(f"{out}/notes.md"):
            shutil.copy(f"{out}/notes.md", f"{dst}/notes.md")
        notes = open(f"{out}/notes.md").read() if os.path.exists(f"{out}/notes.md") else ""
        meta = {
            "property": pid,
            "origin": "independent sub-agent given only the property text and a scratch worktree",
            "touched_crates": touched,
            "needs_to_manifest": notes.strip().split("\n\n")[0][:1200],
            "confirmation": log["steps"],
            "caught_by": [],
        }
        json.dump(meta, open(f"{dst}/meta.json", "w"), indent=1)
    return 0 if verdict else 1

if __name__ == "__main__":
    sys.exit(main())
