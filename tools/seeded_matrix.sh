#!/bin/bash
# tools/seeded_matrix.sh [ids...] : run every kept seeded change against its property's quick check
# (through tools/try_mutant.sh) and record the outcome in seeded/<id>-<k>/meta.json.
cd "$(dirname "$0")/.." || exit 2
sel="$*"
for d in seeded/*/; do
  n=$(basename "$d"); id=${n%%-*}
  if [ -n "$sel" ] && ! echo " $sel " | grep -q " $id "; then continue; fi
  # ONLY=<substring>: restrict to directories whose name contains it (e.g. ONLY=-r4-)
  if [ -n "${ONLY:-}" ] && [[ "$n" != *"$ONLY"* ]]; then continue; fi
  patch="$PWD/${d%/}/patch.diff"; [ -f "$PWD/${d%/}/patch.rebased.diff" ] && patch="$PWD/${d%/}/patch.rebased.diff"
  line=$(tools/try_mutant.sh "$patch" "$id" 2>&1 | tail -1)
  echo "$n :: $line" | cut -c1-260
  python3 - "$d/meta.json" "$line" "$patch" <<'PY'
import json,sys,re
p,line,patch=sys.argv[1:4]
m=json.load(open(p))
verdict=line.split(' ',1)[0]
classes=re.findall(r"violation class=([\w\-]+)", line)
m["quick_check_verdict"]=verdict
m["caught_by"]=[{"check": m["property"], "tier": "quick", "classes": sorted(set(classes))}] if verdict=="CAUGHT" else []
m["patch_used"]=patch.split('/')[-1]
json.dump(m,open(p,'w'),indent=1)
PY
done
