#!/bin/bash
# tools/try_mutant.sh <patch.diff> <property-id>... : apply a seeded change to /repo, run the quick
# checks, undo the change. Prints one line per property: CAUGHT / MISSED / HARNESS-ERROR.
patch="$1"; shift
cd /repo || exit 2
if ! git diff --quiet; then echo "refusing: /repo has uncommitted changes"; exit 2; fi
if git apply --check "$patch" 2>/dev/null; then
  git apply "$patch"
elif patch -p1 --dry-run --fuzz=3 -s < "$patch" >/dev/null 2>&1; then
  # context moved because of later hook/fix commits: apply with fuzz
  patch -p1 --fuzz=3 -s < "$patch"
else
  echo "APPLY-FAILED $patch"; exit 3
fi
for id in "$@"; do
  out=$(cd /verif && VERIF_BUDGET_S=${VERIF_BUDGET_S:-60} timeout 900 ./check "$id" --tier "${TIER:-quick}" 2>&1); rc=$?
  case $rc in
    0) echo "MISSED $id $patch" ;;
    1) echo "CAUGHT $id $patch :: $(echo "$out" | grep -m2 '^violation class' | tr '\n' ' ')" ;;
    *) echo "HARNESS-ERROR($rc) $id $patch :: $(echo "$out" | tail -3 | tr '\n' ' ')" ;;
  esac
done
git -C /repo checkout -- . && git -C /repo clean -fdq -- . >/dev/null 2>&1; find /repo -name '*.orig' -newer "$patch" -delete 2>/dev/null
# evidence files were rewritten by the mutant runs: restore the committed ones
cd /verif && git checkout -- evidence 2>/dev/null
exit 0
