#!/bin/bash
# tools/seed_sweep.sh "<seeds>" [ids...] : the quick tier of every check under other VERIF_SEED values
# (the checks must never raise an alarm on the unchanged tree, whatever the seed)
cd "$(dirname "$0")/.." || exit 2
seeds=${1:-"2 3 5 7 11 42 12345 987654321"}; shift
ids=${@:-C01 C02 C03 C04 C05 C06 C07 C08 C09 C10 C11 C12 C13 C14 C16 C17 C18 C19}
for s in $seeds; do for id in $ids; do
  out=$(VERIF_SEED=$s timeout 900 ./check $id --tier quick 2>&1); rc=$?
  echo "seed=$s $id rc=$rc $(echo "$out" | grep -E 'VIOLATION|harness error|violation class' | tr '\n' ' ' | cut -c1-300)"
done; done
