#!/bin/bash
# tools/determinism.sh <id>... : every batch is a pure function of (seed, run count): run each check
# at several worker-process counts and twice at the same count, and compare the measured set sizes
# (evaluations, distinct non-trivial trace hashes, distinct states, simulated time). Any difference
# means a forgotten source of nondeterminism. (Each run also performs the in-batch self-check that
# re-executes sampled seeds and replays their recorded action lists.)
cd "$(dirname "$0")/.." || exit 2
rc=0
for id in "$@"; do
 for seed in ${SEEDS:-1 77}; do
  ref=""
  for jobs in 16 16 5 1; do
    runs=${RUNS:-6000}
    line=$(VERIF_SEED=$seed VERIF_JOBS=$jobs ./check "$id" --runs "$runs" --budget 900 --no-corpus 2>&1 | grep -E "^\[[a-z]+\] [0-9]+ runs" | sed -E 's/, [0-9.]+s wall, [0-9]+ runs\/h//')
    if [ -z "$ref" ]; then ref="$line"; fi
    if [ "$line" != "$ref" ] || [ -z "$line" ]; then echo "NONDETERMINISTIC $id jobs=$jobs: '$line' vs '$ref'"; rc=1; fi
  done
  echo "deterministic $id seed=$seed: $ref"
 done
done
git checkout -- evidence 2>/dev/null
exit $rc
